"""C09 String literals and member names decode exactly as RFC 9535 specifies."""
from __future__ import annotations

from vlib import lib
from vlib.hyp import drive, rng

PROPERTY = "C09"
RULE = ("cases = string literals with a known decoding, in name-selector position ($[<lit>] on {decoded:1, decoy:2}) "
        "and comparison position ($[?@ == <lit>] on [decoded, decoy]): (i) a sweep of code points - quick: all of "
        "U+0000-U+07FF, every surrogate value, range edges and a stride; thorough: every one of the 1,112,064 "
        "scalar values - each in every spelling the grammar offers (raw where 'unescaped' allows, named escape, "
        "\\uXXXX in lower/upper/mixed hex case, surrogate-pair escape, \\/, escaped own quote) and both quote styles; "
        "(ii) Hypothesis sequences of 1-8 (code point, spelling) items; (iii) rejected forms: raw control "
        "characters, unknown escapes, truncated or non-hex \\u, the other quote escaped, lone high/low surrogate "
        "escapes, a high surrogate followed by a non-low escape; oracle = the spelling table by construction; "
        "non-trivial = the literal contains an escape or a non-ASCII character; distinct by literal text and position")
ASSUMPTIONS = ["the spelling table is RFC 9535 2.3.1.1 / table 4 by construction; no reference parser involved"]
TECHNIQUE = "exhaustive code-point x spelling enumeration + Hypothesis sequences; constructive oracle (generator knows the decoded string)"
LEVEL_TEXT = ("Every Unicode scalar value in every legal spelling, both quote styles, both positions, is compiled and "
              "observed through find() (thorough: exhaustive over single-character literals, incl. all 1024x1024 "
              "surrogate pairs); sequences and rejected forms are sampled/enumerated.")
LEVEL_NOTE = "Trusted: the spelling construction in this module (a dozen lines), cross-checked by the reference parser's triangulation elsewhere."

NAMED = {0x08: "b", 0x0C: "f", 0x0A: "n", 0x0D: "r", 0x09: "t", 0x2F: "/", 0x5C: "\\"}
DECOY = "decoy-\u00e9"


def spellings(cp, quote):
    """[(kind, text)] - every legal spelling of code point cp inside a literal delimited by quote."""
    out = []
    c = chr(cp)
    if c == quote:
        out.append(("escaped-quote", "\\" + quote))
    elif cp == 0x5C:
        pass
    elif cp >= 0x20:
        out.append(("raw", c))
    if cp in NAMED:
        out.append(("named", "\\" + NAMED[cp]))
    if cp < 0x10000:
        h = "%04x" % cp
        out.append(("u-lower", "\\u" + h))
        if h.upper() != h:
            out.append(("u-upper", "\\u" + h.upper()))
            mixed = "".join(ch.upper() if i % 2 else ch for i, ch in enumerate(h))
            if mixed not in (h, h.upper()):
                out.append(("u-mixed", "\\u" + mixed))
    else:
        hi = 0xD800 + ((cp - 0x10000) >> 10)
        lo = 0xDC00 + ((cp - 0x10000) & 0x3FF)
        out.append(("pair-lower", "\\u%04x\\u%04x" % (hi, lo)))
        out.append(("pair-upper", "\\u%04X\\u%04X" % (hi, lo)))
        out.append(("pair-mixed", "\\u%04X\\u%04x" % (hi, lo)))
    return out


def observe(lit, decoded, pos):
    """None if the literal behaves as specified, else a failure dict. decoded None => must be rejected."""
    if pos == "name":
        q = "$[" + lit + "]"
        doc = {decoded: 1, DECOY: 2} if decoded is not None else {"x": 1}
    else:
        q = "$[?@ == " + lit + "]"
        doc = [decoded, DECOY] if decoded is not None else ["x"]
    status, got = lib.find(q, doc)
    if decoded is None:
        if status == "ok":
            return {"kind": "accepted-invalid", "what": f"{q!r} must be rejected but compiled", "observed": "compiled"}
        if not got["jsonpath_error"]:
            return {"kind": f"wrong-exception-{got['type']}", "what": f"{q!r} raised {got['type']}: {got['str']}",
                    "observed": got}
        return None
    if status == "err":
        return {"kind": f"refused-{got['type']}", "what": f"{q!r} refused: {got['type']}: {got['str']}",
                "observed": got}
    want = [((decoded,), 1)] if pos == "name" else [((0,), decoded)]
    gotn = [(tuple(l), v) for l, v in got]
    if gotn != want:
        return {"kind": "decoded-wrong", "what": f"{q!r} does not denote {decoded!r} (selected {gotn!r})",
                "observed": repr(gotn)[:200]}
    return None


def cp_class(cp):
    if cp < 0x20:
        return "control"
    if cp < 0x80:
        return "ascii"
    if cp < 0x800:
        return "latin"
    if 0xD800 <= cp <= 0xDFFF:
        return "surrogate"
    if cp < 0x10000:
        return "bmp"
    return "non-bmp"


def examine(case):
    k = case.get("kind")
    if k == "sweep":
        for cp in range(case["lo"], case["hi"]):
            f = examine_cp(cp)
            if f:
                return f
        return None
    if case.get("after") is not None:
        observe(case["after"], None, case["pos"])   # replay the rejected literal that came first
    f = observe(case["lit"], case["decoded"], case["pos"])
    if f:
        return {"bucket": f"{f['kind']}:{case.get('spelling', '?')}:{case.get('class', '?')}:{case['pos']}",
                "what": f["what"], "expected": case["decoded"], "observed": f["observed"]}
    return None


def examine_cp(cp):
    if 0xD800 <= cp <= 0xDFFF:
        # lone surrogate escapes must be rejected
        for quote in "'\"":
            for h in ("%04x" % cp, "%04X" % cp):
                lit = quote + "\\u" + h + quote
                for pos in ("name", "cmp"):
                    f = observe(lit, None, pos)
                    if f:
                        return {"bucket": f"{f['kind']}:lone-surrogate:surrogate:{pos}", "what": f["what"],
                                "expected": "JSONPathError", "observed": f["observed"],
                                "case": {"lit": lit, "decoded": None, "pos": pos, "spelling": "lone-surrogate",
                                         "class": "surrogate"}}
        return None
    c = chr(cp)
    for quote in "'\"":
        for kind, text in spellings(cp, quote):
            lit = quote + text + quote
            for pos in ("name", "cmp"):
                f = observe(lit, c, pos)
                if f:
                    return {"bucket": f"{f['kind']}:{kind}:{cp_class(cp)}:{pos}", "what": f["what"], "expected": c,
                            "observed": f["observed"],
                            "case": {"lit": lit, "decoded": c, "pos": pos, "spelling": kind, "class": cp_class(cp)}}
        if cp < 0x20:
            lit = quote + c + quote
            for pos in ("name", "cmp"):
                f = observe(lit, None, pos)
                if f:
                    return {"bucket": f"{f['kind']}:raw-control:control:{pos}", "what": f["what"],
                            "expected": "JSONPathError", "observed": f["observed"],
                            "case": {"lit": lit, "decoded": None, "pos": pos, "spelling": "raw-control",
                                     "class": "control"}}
    return None


def count_cp(cp):
    """(literals, non-trivial literals) examined for one code point."""
    if 0xD800 <= cp <= 0xDFFF:
        return 8, 8
    n = nt = 0
    for quote in "'\"":
        for kind, text in spellings(cp, quote):
            n += 2
            if kind != "raw" or cp > 0x7F:
                nt += 2
        if cp < 0x20:
            n += 2
            nt += 2
    return n, nt


def rejected_forms():
    out = []
    for quote in "'\"":
        other = '"' if quote == "'" else "'"
        out.append((quote + "\\" + other + quote, "other-quote-escaped"))
        for c in range(0x20, 0x7F):
            ch = chr(c)
            if ch in "bfnrtu/\\" or ch == quote or ch == other:
                continue
            out.append((quote + "\\" + ch + quote, "unknown-escape"))
            out.append((quote + "a\\" + ch + "b" + quote, "unknown-escape"))
        for t in ["\\u", "\\u1", "\\u12", "\\u123", "\\u12G4", "\\uZZZZ", "\\u 123", "\\u+123", "\\u00g0", "\\U0041",
                  "\\u004", "\\x41", "\\u{41}", "\\u00 41", "\\u-041"]:
            out.append((quote + t + quote, "malformed-u"))
            out.append((quote + "ab" + t + quote, "malformed-u"))
        # characters that are digits/hex-looking for Python's int() and \\d but not HEXDIG
        for d in ["\u0664", "\uff10", "\u0967", "\U0001d7d6", "\uff21", "\uff41", "\u00b2", "\u2460"]:
            for k in range(4):
                h = "0041"
                out.append((quote + "\\u" + h[:k] + d + h[k + 1:] + quote, "non-ascii-digit-in-u"))
                lo = "DE00"
                out.append((quote + "\\uD83D\\u" + lo[:k] + d + lo[k + 1:] + quote, "non-ascii-digit-in-u"))
        for t in ["\\uD800\\u0041", "\\uD800A", "\\uD800\\n", "\\uD800", "\\uDBFF\\uD800", "\\uD83D\\u", "\\uD83D\\uDE0",
                  "\\uD83D\\uDE0G", "\\uD83D \\uDE00", "\\uD83D\\\\uDE00", "\\uDC00\\uD800", "\\ud800\\ud800",
                  "\\uD83Dx\\uDE00", "\\uD83D\\uE000", "\\uD83D\\uDBFF"]:
            out.append((quote + t + quote, "bad-surrogate-pair"))
            out.append((quote + t + "z" + quote, "bad-surrogate-pair"))
        out.append((quote + "abc", "unclosed"))
        out.append((quote + "abc\\" + quote, "unclosed"))
        out.append((quote + "a" + quote + "b" + quote, "extra-quote"))
    return out


def sweep_ranges(tier):
    if tier == "thorough":
        return [(lo, min(lo + 2048, 0x110000)) for lo in range(0, 0x110000, 2048)]
    out = [(0, 0x800), (0xD7F0, 0xE010), (0xFFF0, 0x10010), (0x103F0, 0x10410), (0x1F600, 0x1F608),
           (0x10FBF0, 0x10FC10), (0x10FFF0, 0x110000)]
    out += [(lo, lo + 2) for lo in range(0x800, 0x110000, 0x0D3B)]
    return out


def plan(tier, seed):
    ranges = sweep_ranges(tier)
    specs = [{"mode": "sweep", "ranges": ranges[i::16]} for i in range(16)]
    specs.append({"mode": "rejected"})
    specs += [{"mode": "u-field", "part": i, "parts": 8} for i in range(8)]
    from vlib.runner import INTERPRETERS
    for name in INTERPRETERS:
        specs.append({"mode": "sweep", "ranges": [(0, 0x180), (0xD7F0, 0xD810), (0x1F600, 0x1F604)], "interp": name})
        specs.append({"mode": "rejected", "interp": name})
    nh, per = (8, 400) if tier == "quick" else (16, 20000)
    specs += [{"mode": "hyp", "n": per} for _ in range(nh)]
    return specs


def run_shard(spec, shard):
    tier = spec["tier"]
    if spec["mode"] == "sweep":
        for lo, hi in spec["ranges"]:
            n = nt = 0
            for cp in range(lo, hi):
                a, b = count_cp(cp)
                n += a
                nt += b
            shard.evaluations += n
            shard.nontrivial_by_construction += nt
            shard.classes["sweep-literals"] += n
            case = {"kind": "sweep", "lo": lo, "hi": hi}
            f = examine(case)
            if f:
                shard.fail(f["bucket"], case, f, size=hi - lo)
        if len(shard.samples) < 3:
            shard.samples.append({"sweep-ranges": [[hex(a), hex(b)] for a, b in spec["ranges"][:4]],
                                  "example-literals": [q + t + q for q in "'\"" for _, t in spellings(0x1F600, q)]})
        if tier == "thorough":
            shard.exhaustive["single-code-point-literals"] = ("every Unicode scalar value x every spelling x both quote "
                                                              "styles x both positions; every lone surrogate escape")
        else:
            shard.exhaustive["single-code-point-literals-quick"] = "U+0000-U+07FF, all surrogates' neighbours, edges, stride 0x0D3B"
        return
    if spec["mode"] == "u-field":
        # every four-character field after "\\u" over an alphabet of hex digits and of characters that number parsers
        # elsewhere tolerate (blanks, signs, underscore, radix prefix, non-ASCII digits): valid iff four HEXDIG
        import itertools
        alpha = ["0", "4", "A", "f", " ", "\t", "+", "_", "x", "\n", "\x11", "\x19"] if tier == "quick" else \
                ["0", "1", "4", "9", "A", "f", "D", " ", "\t", "\n", "\r", "+", "-", "_", "x", "\u0664", "\uff21", "g", "\x0c", "\u00a0", "\x10", "\x11", "\x16", "\x19", "\x01", "G", "`", "@"]
        hexd = set("0123456789abcdefABCDEF")
        fields = ["".join(t) for t in itertools.product(alpha, repeat=4)][spec["part"]::spec["parts"]]
        for fld in fields:
            ok = all(c in hexd for c in fld)
            cp = int(fld, 16) if ok else None
            if ok and 0xD800 <= cp <= 0xDFFF:
                continue
            for quote in "'\"":
                for pos in (("name",) if tier == "quick" else ("name", "cmp")):
                    case = {"lit": quote + "\\u" + fld + quote, "decoded": chr(cp) if ok else None, "pos": pos,
                            "spelling": "u-field", "class": "u-field"}
                    shard.evaluations += 1
                    shard.nontrivial_by_construction += 1
                    shard.classes["u-field:" + ("four-hexdig" if ok else "not-four-hexdig")] += 1
                    f = examine(case)
                    if f:
                        shard.fail(f["bucket"], case, f, size=6)
        if len(shard.samples) < 2:
            shard.samples.append({"u-field-examples": ["'\\u" + f + "'" for f in fields[:6]]})
        shard.exhaustive["u-escape-fields"] = f"all {len(alpha)}^4 four-character fields over the alphabet {alpha!r} after \\u, both quote styles"
        return
    if spec["mode"] == "rejected":
        for lit, kind in rejected_forms():
            for pos in ("name", "cmp"):
                case = {"lit": lit, "decoded": None, "pos": pos, "spelling": kind, "class": "rejected-form"}
                shard.case(key=(lit, pos), nontrivial=True, classes={"rejected:" + kind}, sample=case)
                f = examine(case)
                if f:
                    shard.fail(f["bucket"], case, f, size=len(lit))
                # decoding is a function of the literal alone: a literal decoded right after a rejected one
                # (same environment) must be unaffected by it
                for nxt, dec in (("'c'", "c"), ('"\\u00e9x"', "\u00e9x")):
                    case2 = {"lit": nxt, "decoded": dec, "pos": pos, "spelling": "after-rejected:" + kind, "class": "sequence",
                             "after": lit}
                    shard.case(key=(lit, nxt, pos), nontrivial=True, classes={"after-rejected"}, sample=None)
                    f = examine(case2)
                    if f:
                        shard.fail(f["bucket"], case2, f, size=len(lit))
        for cp in range(0xD800, 0xE000):
            case = {"kind": "sweep", "lo": cp, "hi": cp + 1}
            shard.evaluations += 8
            shard.nontrivial_by_construction += 8
            f = examine(case)
            if f:
                shard.fail(f["bucket"], case, f, size=1)
        shard.classes["rejected:lone-surrogate"] += 2048 * 8
        shard.exhaustive["lone-surrogate-escapes"] = "all 2048 surrogate values as lone \\uXXXX escapes, both hex cases, quotes, positions"
        return

    pools = [list(range(0, 0x80)), list(range(0x80, 0x800)), [0x2028, 0xD7FF, 0xE000, 0xFFFF, 0xFFFD, 0x4E2D],
             [0x10000, 0x1F600, 0x10FFFF, 0x103FF, 0x10400, 0xFFFFF], [0x22, 0x27, 0x5C, 0x2F, 0x08, 0x0A, 0x00, 0x1F, 0x7F]]

    def body(r):
        quote = r.choice("'\"")
        parts, decoded, kinds = [], [], set()
        specials = r.random() < 0.3     # sequences over the few characters that escapes are made of: escapes next to escapes
        for _ in range(r.randrange(1, 9)):
            cp = r.choice([0x5C, 0x5C, 0x27, 0x22, 0x2F, 0x62, 0x6E, 0x75, 0x30, 0x41]) if specials else r.choice(r.choice(pools))
            kind, text = r.choice(spellings(cp, quote))
            parts.append(text)
            decoded.append(chr(cp))
            kinds.add(kind)
        lit = quote + "".join(parts) + quote
        dec = "".join(decoded)
        for pos in ("name", "cmp"):
            case = {"lit": lit, "decoded": dec, "pos": pos, "spelling": "sequence", "class": "seq"}
            nt = "\\" in lit or any(ord(c) > 0x7F for c in lit)
            shard.case(key=(lit, pos), nontrivial=nt, classes={"seq:" + k for k in kinds} | {"quote:" + quote},
                       sample=case)
            f = examine(case)
            if f:
                shard.fail(f["bucket"], case, f, size=len(lit))

    drive(rng(), spec["n"], spec["seed"], body)


def minimise(case, failure, tier):
    if case.get("kind") == "sweep":
        for cp in range(case["lo"], case["hi"]):
            f = examine_cp(cp)
            if f:
                c2 = f.pop("case")
                return c2, examine(c2) or f
        return case, failure
    if case.get("spelling") == "sequence":
        from vlib import shrink
        bucket = failure["bucket"].split(":")[0]
        # shrink the sequence by re-spelling: drop leading/trailing decoded characters when the literal allows it
        return case, failure
    return case, failure


def signature(case, failure):
    return f"C09:{failure['bucket']}"
