"""C11 match() and search() implement I-Regexp whole-string / substring matching."""
from __future__ import annotations

import os

from vlib import lib, shrink
from vlib.gen import queries as Q
from vlib.hyp import drive, rng
from vlib.ref import iregexp
from vlib.runner import HarnessError

PROPERTY = "C11"
RULE = ("cases = (I-Regexp pattern, up to 6 subjects, match|search, pattern delivered as a string literal or through "
        "the document): pattern ASTs of at most 12 atoms built from literals, escaped metacharacters, '.', character "
        "classes (ranges, negation, category escapes, '|' '&' '~' raw and doubled, '-' first/last/escaped, escaped "
        "brackets and backslash, '.' inside), groups, alternation incl. empty branches, quantifiers * + ? {n} {n,} "
        "{n,m} (n,m <= 3), no ^/$; subjects of length <= 8 over letters, digits, LF, CR, U+2028, that punctuation and "
        "two non-BMP characters, drawn half from the pattern's own language (then perturbed) and half at random; all "
        "non-string argument kinds; plainly invalid patterns; oracle = the reference matcher (RFC 9485 ABNF, "
        "set-of-end-positions semantics); non-trivial = a pattern with >= 2 construct kinds on a subject where the "
        "answer is true, or where match and search differ; distinct by (pattern, subject, function, delivery)")
ASSUMPTIONS = ["vlib/ref/iregexp.py transcribes RFC 9485 section 3 and XSD matching semantics",
               "category escapes are tested only on characters whose general category is stable across Unicode versions",
               "'^' and '$' are excluded (disputed)"]
TECHNIQUE = "Hypothesis grammar-based generation of I-Regexp patterns and language-sampled subjects; differential against an independent matcher"
LEVEL_TEXT = ("Generated I-Regexp patterns x subjects sampled from (and near) each pattern's language, through match() "
              "and search(), pattern as literal and from the document, compared with an independent set-based "
              "matcher; non-string and invalid arguments must give false and never raise. Sampled.")
LEVEL_NOTE = "Trusted: vlib/ref/iregexp.py. The third-party regex / iregexp_check packages are observed only through match()/search()."

LETTERS = ["a", "b", "c", "A", "0", "1", "\u00e9"]
PUNCT = ["|", "&", "~", "-", "[", "]", ".", "\\", "(", ")", "*", "+", "?", "{", "}", ",", " ", "'", '"', "/", "#"]
SPECIAL = ["\n", "\r", "\u2028", "\U0001F600", "\U00010000", "\t"]
ALPHABET = LETTERS + PUNCT[:8] + SPECIAL[:5]
CATS = ["L", "Lu", "Ll", "N", "Nd", "P", "Z", "S", "Sm", "C"]
META_OUTSIDE = set("()*+.?[\\]{|}")
ESCAPABLE = set("()*+-.?[\\]^{|}")


# ---------------------------------------------------------------- pattern generation (AST -> text)
def gen_class(r):
    neg = r.random() < 0.25
    items = []
    n = r.randrange(1, 5)
    first_dash = r.random() < 0.1
    last_dash = r.random() < 0.1
    for _ in range(n):
        k = r.randrange(10)
        if k < 4:
            c = r.choice(LETTERS[:6] + ["|", "&", "~", ".", ",", " ", "(", "*", "{", "#"])
            items.append(c)
            if c in "|&~" and r.random() < 0.5:
                items.append(c)  # doubled: special in other dialects, literal here
        elif k < 6:
            lo, hi = sorted([r.choice("abcxyz"), r.choice("abcxyz")])
            items.append(lo + "-" + hi)
        elif k == 6:
            items.append(r.choice(["\\[", "\\]", "\\\\", "\\-", "\\.", "\\|", "\\n", "\\r", "\\t", "\\^", "\\(", "\\{"]))
        elif k == 7:
            items.append(("\\P{" if r.random() < 0.3 else "\\p{") + r.choice(CATS) + "}")
        elif k == 8:
            lo, hi = sorted([r.choice("019"), r.choice("019")])
            items.append(lo + "-" + hi)
        else:
            items.append(r.choice(["\U0001F600", "\u00e9", "\u2028", "A-Z", "0-9", "!-/"]))
    if r.random() < 0.15:
        items.insert(r.randrange(len(items) + 1), ".")       # a dot inside a class is a literal dot
    if r.random() < 0.12:
        items.append(r.choice(["\\\\", "\\]", "\\\\\\]", "\\["]))    # the class ends in an escape: \\ or \] right before the closing bracket
        last_dash = False
    return "[" + ("^" if neg else "") + ("-" if first_dash else "") + "".join(items) + ("-" if last_dash else "") + "]"


def gen_atom(r, depth):
    k = r.randrange(12)
    if k < 4:
        c = r.choice(LETTERS + ["&", "~", "-", ",", " ", "#", "\U0001F600", "\u2028", "'", '"', "/"])
        return c, "literal"
    if k == 4:
        return "\\" + r.choice(sorted(ESCAPABLE - {"^"})), "escaped-meta"
    if k == 5:
        return r.choice(["\\n", "\\r", "\\t"]), "escaped-meta"
    if k == 6:
        if r.random() < 0.3:
            # a dot right after an escape (an escaped backslash, an escaped dot, a category): still a wildcard
            return r.choice(["\\\\.", "\\..", "\\p{L}.", "\\\\\\..", "\\n."]), "dot-after-escape"
        return ".", "dot"
    if k in (7, 8):
        return gen_class(r), "class"
    if k == 9:
        return ("\\P{" if r.random() < 0.3 else "\\p{") + r.choice(CATS) + "}", "category"
    if depth > 0:
        return "(" + gen_regexp(r, depth - 1, 4)[0] + ")", "group"
    return r.choice(LETTERS), "literal"


def gen_piece(r, depth):
    a, kind = gen_atom(r, depth)
    kinds = {kind}
    if r.random() < 0.35:
        q = r.choice(["*", "+", "?", "{%d}" % r.randrange(0, 4), "{%d,}" % r.randrange(0, 3),
                      "{%d,%d}" % tuple(sorted([r.randrange(0, 4), r.randrange(0, 4)]))])
        kinds.add("quantifier")
        return a + q, kinds
    return a, kinds


def gen_regexp(r, depth=2, max_atoms=6):
    branches = []
    kinds = set()
    nb = 1 if r.random() < 0.7 else r.randrange(2, 4)
    if nb > 1:
        kinds.add("alternation")
    for _ in range(nb):
        if nb > 1 and r.random() < 0.12:
            branches.append("")
            kinds.add("empty-branch")
            continue
        ps = []
        for _ in range(r.randrange(1, max(2, max_atoms // nb + 1))):
            p, k = gen_piece(r, depth)
            ps.append(p)
            kinds |= k
        branches.append("".join(ps))
    return "|".join(branches), kinds


# ---------------------------------------------------------------- sampling a pattern's language
def sample(node, r, budget):
    t = node[0]
    if t == "char":
        return node[1]
    if t == "dot":
        return r.choice([c for c in ALPHABET if c not in "\n\r"])
    if t in ("cat", "class"):
        pool = [c for c in ALPHABET + ["B", "z", "9", "!", "+", "x", "y", "Z", "5"] if iregexp._one(node, c)]
        return r.choice(pool) if pool else None
    if t == "group":
        return sample(node[1], r, budget)
    if t == "alt":
        return sample(r.choice(node[1]), r, budget)
    if t == "seq":
        out = []
        for p in node[1]:
            s = sample(p, r, budget)
            if s is None:
                return None
            out.append(s)
        return "".join(out)
    if t == "rep":
        _, a, lo, hi = node
        if hi is not None and hi < lo:
            return None
        n = r.randrange(lo, (hi if hi is not None else lo + 2) + 1)
        out = []
        for _ in range(n):
            s = sample(a, r, budget)
            if s is None:
                return None
            out.append(s)
        return "".join(out)
    raise ValueError(t)


def gen_subject(pattern_ast, r):
    k = r.random()
    if k < 0.55:
        s = sample(pattern_ast, r, 8)
        if s is not None:
            if r.random() < 0.4 and True:
                # perturb: insert/replace/delete one character, or wrap it (search vs match)
                j = r.randrange(len(s) + 1)
                c = r.choice(ALPHABET)
                kind = r.randrange(5)
                if kind == 4 and s:
                    # a line terminator (or its look-alike) in place of one character: decisive wherever a dot stood
                    j = r.randrange(len(s))
                    s = s[:j] + r.choice(["\r", "\n", "\r", "\u2028", "\x85"]) + s[j + 1:]
                elif kind == 0:
                    s = s[:j] + c + s[j:]
                elif kind == 1 and s:
                    s = s[:j] + s[j + 1:]
                elif kind == 2 and s:
                    s = s[:j] + c + s[j + 1:]
                else:
                    s = r.choice(ALPHABET) + s + r.choice(ALPHABET)
            return s[:10]
    return "".join(r.choice(ALPHABET) for _ in range(r.randrange(0, 8)))


NON_STRINGS = [0, 1, 1.5, None, True, False, [], ["a"], {}, {"a": "a"}]
INVALID_PATTERNS = ["(", ")", "a)", "(a", "[a", "a]", "[]", "[^]", "\\d", "\\w+", "\\s", "a*?", "a+?", "a??", "(?:a)", "(?i)a",
                    "\\1", "(a)\\1", "[b-a]", "[[a]]", "a{", "a{1", "a{,2}", "a{x}", "*", "+a", "?", "a**", "a|*", "\\",
                    "\\q", "[a-]]", "[\\d]", "\\p{Xx}", "\\p{L", "\\pL", "[a&&[b]]", "a{1,2,3}", "\\b", "\\A", "(?=a)",
                    "[a-b-c]", "\\x41", "\\u0041", "[[:alpha:]]x(", "a{-1}"]


# Open finding AF: the third-party `regex` engine drops the negation of a class that contains both \p{X} and
# \P{X} for the same X ([^\p{Z}\P{Z}] matches every character instead of none).  Patterns in that region are
# not generated (counted); the witness is replayed on every run.
def has_af(pattern):
    ast = iregexp.parse(pattern) if isinstance(pattern, str) else None
    if ast is None:
        return False
    stack = [ast]
    while stack:
        x = stack.pop()
        if isinstance(x, tuple):
            if x and x[0] == "class" and x[1]:
                pos = {i[1] for i in x[2] if i[0] == "cat" and not i[2]}
                neg = {i[1] for i in x[2] if i[0] == "cat" and i[2]}
                if pos & neg:
                    return True
            stack.extend(y for y in x if isinstance(y, (tuple, list)))
        elif isinstance(x, list):
            stack.extend(x)
    return False


# Open finding AJ: the third-party iregexp_check.check() refuses every range quantifier whose number has two or more
# digits (a{10}, a{0,10}, a{12,}), so match()/search() are false for valid patterns.  Not generated (n, m <= 3); the
# witness is replayed on every run.
def has_aj(pattern):
    import re
    return isinstance(pattern, str) and re.search(r"\{\d{2,}|\{\d+,\d{2,}", pattern) is not None


# ---------------------------------------------------------------- oracle
def build(case):
    fn, delivery = case["fn"], case["delivery"]
    pattern = case["pattern"]
    subjects = case["subjects"]
    doc = []
    for s in subjects:
        item = {"p": pattern}
        if s != "<missing>":
            item["s"] = s
        doc.append(item)
    if delivery == "literal":
        q = "$[?" + fn + "(@.s, " + Q.spell_string(pattern, None) + ")]"
    elif delivery == "literal-dq":
        q = "$[?" + fn + "(@.s, " + Q.spell_string(pattern, None, '"') + ")]"
    else:
        q = "$[?" + fn + "(@.s, @.p)]"
    return q, doc


def expect(fn, pattern, s):
    if not isinstance(s, str) or not isinstance(pattern, str):
        return False
    return iregexp.match(pattern, s) if fn == "match" else iregexp.search(pattern, s)


def examine_isolated(case):
    """Patterns nested far deeper than any real one: match()/search() must neither raise nor take the process down.
    Observed in a child process (a crash there is a result, not the end of the shard).  Beyond 100 levels only
    'returns a boolean' is required: an engine may give up on such a pattern, which the property's 'false for what
    is not usable as a pattern' covers."""
    import subprocess
    import sys as _sys
    n, fn, shape = case["n"], case["fn"], case["shape"]
    prog = (
        "import sys, json\n"
        "sys.setrecursionlimit(%d)\n"
        "import jsonpath_rfc9535 as jp\n"
        "n=%d\n"
        "p={'group':'('*n+'a'+')'*n, 'class-alt':'('+'(a|'*n+'b'+')'*n+')', 'quant':'('*n+'a'+')?'*n}[%r]\n"
        "try:\n"
        "    r=jp.find('$[?%s(@.s, @.p)]', [{'s':'a','p':p}])\n"
        "    print('RESULT ok', len(r))\n"
        "except BaseException as e:\n"
        "    print('RESULT raised', type(e).__name__)\n"
    ) % (case.get("limit", 1000), n, shape, fn)
    env = dict(os.environ)
    pr = subprocess.run([_sys.executable, "-X", "utf8", "-c", prog], capture_output=True, text=True, env=env, timeout=600)
    out = [l for l in pr.stdout.splitlines() if l.startswith("RESULT")]
    what = f"{fn}('a', <{shape} pattern nested {n} levels>)"
    if pr.returncode != 0 or not out:
        sig = -pr.returncode if pr.returncode < 0 else pr.returncode
        return {"bucket": f"crash:deep-pattern:exit-{sig}", "what": f"{what} ended the interpreter (exit status {pr.returncode}: "
                f"{'segmentation fault' if sig in (11, 139) else (pr.stderr or '')[-120:]})", "expected": "true or false", "observed": pr.returncode}
    if out[-1].startswith("RESULT raised"):
        et = out[-1].split()[-1]
        return {"bucket": f"raised:{et}:deep-pattern", "what": f"{what} raised {et}", "expected": "true or false", "observed": et}
    if n <= 100 and out[-1] != "RESULT ok 1":
        return {"bucket": f"{fn}:false-negative:deep-pattern", "what": f"{what} is false, I-Regexp says true", "expected": True, "observed": False}
    return None


def examine(case):
    if case.get("kind") == "deep-pattern":
        return examine_isolated(case)
    q, doc = build(case)
    fn, pattern = case["fn"], case["pattern"]
    if case["delivery"].startswith("literal") and not isinstance(pattern, str):
        return None
    expected = [i for i, s in enumerate(case["subjects"]) if s != "<missing>" and expect(fn, pattern, s)]
    with lib.ambient(case.get("ambient")):
        status, got = lib.find(q, doc)
    pclass = "invalid-pattern" if isinstance(pattern, str) and not iregexp.valid(pattern) else \
        "non-string-pattern" if not isinstance(pattern, str) else "valid"
    if status == "err":
        return {"bucket": f"raised:{got['type']}:{got['frame']}:{pclass}",
                "what": f"{fn}() with pattern {pattern!r} raised {got['type']}: {got['str']}", "expected": expected,
                "observed": got}
    sel = [l[0] for l, _ in got]
    if sel != expected:
        wrong = sorted(set(sel) ^ set(expected))
        s = case["subjects"][wrong[0]]
        lib_says = wrong[0] in sel
        feat = pattern_features(pattern) if pclass == "valid" else pclass
        return {"bucket": f"{fn}:{'false-positive' if lib_says else 'false-negative'}:{feat}",
                "what": f"{fn}({s!r}, {pattern!r}) is {lib_says}, I-Regexp says {not lib_says} (pattern via {case['delivery']})",
                "expected": expected, "observed": sel, "subject": s}
    return None


def pattern_features(p):
    f = []
    if "[" in p.replace("\\[", ""):
        f.append("class")
        import re
        m = re.findall(r"\[(?:\\.|[^\]\\])*\]", p)
        body = "".join(m)
        for ch, name in (("||", "pipe2"), ("&&", "amp2"), ("~~", "tilde2"), ("--", "dash2")):
            if ch in body:
                f.append(name)
    if "\\p{" in p or "\\P{" in p:
        f.append("category")
    if "." in p.replace("\\.", ""):
        f.append("dot")
    if "|" in p.replace("\\|", ""):
        f.append("alt")
    if "(" in p.replace("\\(", ""):
        f.append("group")
    if any(c in p for c in "*+?{"):
        f.append("quant")
    return "+".join(f) or "literal"


def plan(tier, seed):
    specs = [{"mode": "fixed"}]
    if tier == "quick":
        specs += [{"mode": "hyp", "n": 600} for _ in range(16)]
    else:
        specs += [{"mode": "hyp", "n": 8000} for _ in range(16)]
    return specs


def run_shard(spec, shard):
    if spec["mode"] == "fixed":
        for fn in ("match", "search"):
            for shape in ("group", "class-alt", "quant"):
                for n in ((30, 100, 400, 3000) if spec["tier"] == "quick" else (30, 100, 250, 400, 1000, 3000, 20000)):
                    if n == 20000 and shape != "group":
                        continue
                    case = {"kind": "deep-pattern", "fn": fn, "shape": shape, "n": n}
                    shard.case(key=(fn, shape, n), nontrivial=True, classes={"deep-pattern"}, sample=case)
                    f = examine(case)
                    if f:
                        shard.fail(f["bucket"], case, f)
            for p in INVALID_PATTERNS:
                if iregexp.valid(p):
                    raise HarnessError(f"the reference accepts the 'invalid' pattern {p!r}")
                for delivery in ("literal", "doc"):
                    case = {"fn": fn, "pattern": p, "delivery": delivery, "subjects": ["a", "", p, "aa", "\\"]}
                    shard.case(key=(fn, p, delivery), nontrivial=True, classes={"invalid-pattern"}, sample=case)
                    f = examine(case)
                    if f:
                        shard.fail(f["bucket"], case, f)
            for pat in ("ab", "a", "1", "true", "null", "x_y", "a.b", ""):
                for delivery in ("literal", "doc"):
                    case = {"fn": fn, "pattern": pat, "delivery": delivery,
                            "subjects": [[pat], {pat: 1}, [pat, "x"], {"k": pat}, [[pat]], pat, pat + pat, [], {}]}
                    shard.case(key=(fn, pat, delivery, "container"), nontrivial=True, classes={"container-subject-holding-pattern"}, sample=case)
                    f = examine(case)
                    if f:
                        shard.fail(f["bucket"], case, f)
            for ns in NON_STRINGS:
                case = {"fn": fn, "pattern": "a*", "delivery": "doc", "subjects": [ns, "a", "<missing>"]}
                shard.case(key=(fn, repr(ns), "subj"), nontrivial=True, classes={"non-string-subject"}, sample=case)
                f = examine(case)
                if f:
                    shard.fail(f["bucket"], case, f)
                case = {"fn": fn, "pattern": ns, "delivery": "doc", "subjects": ["a", "", 1]}
                shard.case(key=(fn, repr(ns), "pat"), nontrivial=True, classes={"non-string-pattern"}, sample=case)
                f = examine(case)
                if f:
                    shard.fail(f["bucket"], case, f)
        return

    nsub = 4 if spec["tier"] == "quick" else 6

    def body(r):
        pattern, kinds = gen_regexp(r, 2, r.choice([3, 5, 8, 12]))
        ast = iregexp.parse(pattern)
        if ast is None:
            raise HarnessError(f"generator produced a pattern the reference rejects: {pattern!r}")
        if has_af(pattern):
            shard.excluded["AF:negated-class-with-both-\\p{X}-and-\\P{X}"] += 1
            return
        subjects = [gen_subject(ast, r) for _ in range(nsub)]
        delivery = r.choice(["literal", "literal-dq", "doc", "doc"])
        amb = r.choice(lib.REGEX_AMBIENTS) if r.random() < 0.25 else None
        for fn in ("match", "search"):
            case = {"fn": fn, "pattern": pattern, "delivery": delivery, "subjects": subjects}
            if amb:
                case["ambient"] = amb     # the regex package's process-wide default version, as a host may have set it
                shard.classes["ambient:" + amb] += len(subjects)
            f = examine(case)
            for s in subjects:
                m, sr = iregexp.match(pattern, s), iregexp.search(pattern, s)
                ans = m if fn == "match" else sr
                nt = (len(kinds) >= 2 and ans) or (m != sr)
                shard.case(key=(fn, pattern, s, delivery), nontrivial=nt,
                           classes={"kind:" + k for k in kinds} | {f"{fn}:{ans}", "delivery:" + delivery}
                           | ({"match!=search"} if m != sr else set()),
                           sample={"fn": fn, "pattern": pattern, "subject": s, "expected": ans})
            if f:
                shard.fail(f["bucket"], case, f, size=len(pattern) * 10 + len(subjects))

    drive(rng(), spec["n"], spec["seed"], body)


def minimise(case, failure, tier):
    if case.get("kind") == "deep-pattern":
        return case, failure
    kind = failure["bucket"].split(":")[:2]
    cur = dict(case)
    if "subject" in failure:
        cur["subjects"] = [failure["subject"]]

    def same(c):
        f = examine(c)
        return f is not None and f["bucket"].split(":")[:2] == kind

    if not same(cur):
        cur = dict(case)
    if isinstance(cur["pattern"], str) and iregexp.valid(cur["pattern"]):
        af = has_af(cur["pattern"])
        aj = has_aj(cur["pattern"])
        p = shrink.shrink_text(cur["pattern"], lambda t: iregexp.valid(t) and has_af(t) == af and has_aj(t) == aj and same(dict(cur, pattern=t)),
                               shrink.Budget(1500))
        cur["pattern"] = p
    if len(cur["subjects"]) == 1 and isinstance(cur["subjects"][0], str):
        s = shrink.shrink_text(cur["subjects"][0], lambda t: same(dict(cur, subjects=[t])), shrink.Budget(500))
        cur["subjects"] = [s]
    return cur, examine(cur) or failure


def signature(case, failure):
    if case.get("kind") == "deep-pattern":
        return "C11:" + failure["bucket"]
    if has_aj(case.get("pattern")) and "false-negative" in failure["bucket"]:
        return "C11:iregexp-check:multi-digit-quantifier"
    if has_af(case.get("pattern")) and "false-positive" in failure["bucket"]:
        return "C11:regex-engine:negated-class-with-complementary-categories"
    return f"C11:{failure['bucket']}"
