"""C10 length/count/value and the function-call type conversions follow RFC 9535."""
from __future__ import annotations

import collections
import itertools

from vlib import diff, lib
from vlib.gen import queries as Q
from vlib.hyp import drive, rng
from vlib.ref import evaluate as ev
from vlib.ref.evaluate import BUILTINS, LOGICAL, NODES, NOTHING, VALUE

PROPERTY = "C10"
RULE = ("cases = (query with function calls, JSON value): argument expressions of every shape (literals of each "
        "kind, bare @ on container and scalar children, $, singular and non-singular queries with 0/1/many results, "
        "nested calls, logical expressions) for the built-ins length/count/value and for 39 probe functions (every "
        "signature with arity <= 2 over Value/Logical/Nodes) registered on a fresh environment; probes record "
        "exactly what they receive; oracle = reference conversions (Value parameter: the literal, the single node's "
        "value by identity, or Nothing; Nodes parameter: the nodelist's values in order; Logical parameter: exactly "
        "True/False) and reference results; every call the library makes must be one the reference makes, and the "
        "selected nodes must be equal; non-trivial = some call received Nothing or a nodelist with 0 or >= 2 nodes, "
        "or calls are nested, or a non-literal argument met a scalar child; distinct by (query text, document)")
ASSUMPTIONS = ["vlib/ref/evaluate.py implements RFC 9535 2.4 conversions",
               "probe functions are pure; the library may evaluate fewer calls than the reference (short circuit) but never different ones"]
TECHNIQUE = "Hypothesis property-based testing with recording probe functions; differential against the reference evaluator"
LEVEL_TEXT = ("Generated calls of built-in and 39 user-registered signatures x documents with children of every kind; "
              "both the arguments actually received by each function and the final selection are compared with an "
              "independent reference. Sampled.")
LEVEL_NOTE = "Trusted: reference evaluator; probes are registered through the public function_extensions mapping (no source hooks)."

TYPES = [VALUE, LOGICAL, NODES]
LETTER = {VALUE: "v", LOGICAL: "l", NODES: "n"}


def probe_sigs():
    out = {}
    for n in range(3):
        for params in itertools.product(TYPES, repeat=n):
            for ret in TYPES:
                name = "p" + "".join(LETTER[p] for p in params) + "_" + LETTER[ret]
                out[name] = (list(params), ret)
    return out


SIGS = probe_sigs()


def semantic(params, ret, args, nothing, empty_nodes):
    """What a probe returns - a pure function of what it received (same code for both sides)."""
    first = params[0] if params else None
    a = args[0] if args else None
    if ret == VALUE:
        if first == VALUE:
            return a
        if first == NODES:
            return len(a)
        if first == LOGICAL:
            return 1 if a is True else 0 if a is False else "not-a-bool"
        return 7
    if ret == LOGICAL:
        if first == VALUE:
            return a is not nothing
        if first == NODES:
            return len(a) == 1
        if first == LOGICAL:
            return not a
        return True
    if first == NODES:
        return a
    return empty_nodes()


def semantic_alt(params, ret, args, nothing, empty_nodes):
    """A second behaviour for every probe signature (a function registered again under the same name and declared
    types, doing something else): the answer of `semantic` turned round where that is possible."""
    v = semantic(params, ret, args, nothing, empty_nodes)
    if ret == VALUE:
        return [v] if v is not nothing else "was-nothing"
    if ret == LOGICAL:
        return not v
    return v


def ref_registry_alt():
    reg = {}
    for name, (params, ret) in SIGS.items():
        reg[name] = {"params": params, "ret": ret,
                     "impl": (lambda *a, _p=params, _r=ret: semantic_alt(_p, _r, a, NOTHING, list))}
    return reg


def ref_registry():
    reg = {k: v for k, v in BUILTINS.items()}
    for name, (params, ret) in SIGS.items():
        reg[name] = {"params": params, "ret": ret,
                     "impl": (lambda *a, _p=params, _r=ret: semantic(_p, _r, a, NOTHING, list))}
    return reg


REG = ref_registry()
REG_ALT = ref_registry_alt()
_FNS_ALT = None


def probe_functions_alt():
    global _FNS_ALT
    if _FNS_ALT is None:
        import jsonpath_rfc9535 as jp
        from jsonpath_rfc9535.function_extensions import ExpressionType, FilterFunction
        tmap = {VALUE: ExpressionType.VALUE, LOGICAL: ExpressionType.LOGICAL, NODES: ExpressionType.NODES}
        out = {}
        for name, (params, ret) in SIGS.items():
            class F(FilterFunction):
                arg_types = [tmap[p] for p in params]
                return_type = tmap[ret]

                def __call__(self, *a, _n=name, _p=params, _r=ret):
                    _LOG.append((_n, a))
                    return semantic_alt(_p, _r, a, jp.NOTHING, jp.JSONPathNodeList)
            out[name] = F()
        _FNS_ALT = out
    return _FNS_ALT
_ENV = None
_LOG = []


_FNS = None


def probe_functions():
    """The probe function objects, kept apart from any environment's registry (a broken library may share or
    empty registries behind the harness's back)."""
    lib_env()
    return _FNS


def lib_env():
    global _ENV, _FNS
    if _ENV is not None:
        return _ENV
    import jsonpath_rfc9535 as jp
    from jsonpath_rfc9535.function_extensions import ExpressionType, FilterFunction

    tmap = {VALUE: ExpressionType.VALUE, LOGICAL: ExpressionType.LOGICAL, NODES: ExpressionType.NODES}
    fns = {}
    for name, (params, ret) in SIGS.items():
        class F(FilterFunction):
            arg_types = [tmap[p] for p in params]
            return_type = tmap[ret]

            def __call__(self, *a, _n=name, _p=params, _r=ret):
                _LOG.append((_n, a))
                return semantic(_p, _r, a, jp.NOTHING, jp.JSONPathNodeList)

        fns[name] = F()
    _FNS = dict(fns)
    _ENV = lib.make_env(functions=fns)
    return _ENV


def desc_value(v):
    if isinstance(v, (list, dict)):
        return ("obj", id(v))
    if isinstance(v, (int, float)) and not isinstance(v, bool):
        # a JSON number is its numeric value: the literal 0e0 may arrive as int 0 or float 0.0
        if isinstance(v, float) and v.is_integer():
            v = int(v)
        return ("num", repr(v))
    return ("scalar", type(v).__name__, repr(v))


def describe_ref(name, conv, reg=None):
    params = (reg or REG)[name]["params"]
    out = []
    for p, a in zip(params, conv):
        if p == VALUE:
            out.append(("nothing",) if a is NOTHING else desc_value(a))
        elif p == NODES:
            out.append(("nodes", tuple(desc_value(v) for _, v in a)))
        else:
            out.append(("logical", a))
    return (name, tuple(out))


def describe_lib(name, args, sigs=None):
    import jsonpath_rfc9535 as jp

    params = (sigs or SIGS)[name][0]
    out = []
    for p, a in zip(params, args):
        if p == VALUE:
            if a is jp.NOTHING:
                out.append(("nothing",))
            elif isinstance(a, jp.JSONPathNodeList):
                out.append(("unconverted-nodelist", len(a)))
            else:
                out.append(desc_value(a))
        elif p == NODES:
            if isinstance(a, jp.JSONPathNodeList):
                out.append(("nodes", tuple(desc_value(n.value) for n in a)))
            else:
                out.append(("not-a-nodelist", type(a).__name__))
        else:
            out.append(("logical", a) if a is True or a is False else ("not-a-bool", type(a).__name__, repr(a)[:40]))
    return (name, tuple(out))


def examine(case):
    if case.get("kind") == "rebind":
        return examine_rebind(case)
    q, ast, doc = case["q"], case["ast"], case["doc"]
    if case.get("exotic"):
        from vlib.gen import values as V
        doc = V.exotic(doc, case["exotic"])
    return compare_run(q, ast, doc, REG, SIGS, lambda: lib.find(q, doc, lib_env()))


def compare_run(q, ast, doc, REG, SIGS, run):  # noqa: N803 - same names as the module-level tables on purpose
    log = []
    e = ev.Evaluator(REG, call_log=log)
    expected = e.query(ast, doc)
    del _LOG[:]
    status, got = run()
    lib_calls = [c for c in _LOG]
    del _LOG[:]
    if status == "err":
        return {"bucket": f"raised:{got['type']}:{got['frame']}", "what": f"find({q!r}) raised {got['type']}: {got['str']}",
                "expected": ev.show_nodes(expected), "observed": got}
    ref_multi = collections.Counter(describe_ref(n, c, REG) for n, c in log if n in SIGS)
    lib_multi = collections.Counter(describe_lib(n, a, SIGS) for n, a in lib_calls)
    extra = lib_multi - ref_multi
    if extra:
        (name, args), _ = next(iter(sorted(extra.items(), key=repr)))
        params = SIGS[name][0]
        bad = [f"{LETTER[p]}:{a[0]}" for p, a in zip(params, args)]
        return {"bucket": f"conversion:{'+'.join(bad)}",
                "what": f"find({q!r}): {name}() received {args!r}, which the RFC 9535 conversions never produce here",
                "expected": sorted(map(repr, ref_multi))[:6], "observed": repr((name, args))[:300]}
    if not ev.same_nodelist(expected, got):
        feats = sorted(f for f in Q.features(ast) if f in ("call", "not", "and", "or", "cmp"))
        return {"bucket": f"result:{'+'.join(feats)}", "what": f"find({q!r}) differs from the RFC 9535 result",
                "expected": ev.show_nodes(expected), "observed": ev.show_nodes(got)}
    return None



PATHS = ("env.find", "env.finditer", "env.compile.find", "env.compile.apply", "module.find", "module.finditer", "module.compile.find")


def examine_rebind(case):
    """One name, one text, one environment: the name is bound to a function with one declared signature, the text is
    used, the declared signature changes (another object registered, or the same object's declarations changed in
    place), the same text is used again.  Every use is judged against the signature in force at that moment."""
    import jsonpath_rfc9535 as jp
    from jsonpath_rfc9535.function_extensions import ExpressionType, FilterFunction
    from vlib.ref import typecheck

    tmap = {VALUE: ExpressionType.VALUE, LOGICAL: ExpressionType.LOGICAL, NODES: ExpressionType.NODES}
    back = {v: k for k, v in tmap.items()}
    q, ast, doc = case["q"], case["ast"], case["doc"]

    def mk(sig):
        class F(FilterFunction):
            arg_types = [tmap[p] for p in SIGS[sig][0]]
            return_type = tmap[SIGS[sig][1]]

            def __call__(self, *a):
                _LOG.append(("fx", a))
                return semantic([back[t] for t in self.arg_types], back[self.return_type], a, jp.NOTHING, jp.JSONPathNodeList)
        return F()

    def model(sig):
        params, ret = SIGS[sig]
        reg = dict(BUILTINS)
        reg["fx"] = {"params": params, "ret": ret, "impl": (lambda *a, _p=params, _r=ret: semantic(_p, _r, a, NOTHING, list))}
        return reg, {"fx": (params, ret)}

    def use(env, path):
        def run():
            try:
                if path == "env.find":
                    return "ok", lib.nodes_of(env.find(q, doc))
                if path == "env.finditer":
                    return "ok", lib.nodes_of(list(env.finditer(q, doc)))
                if path == "env.compile.find":
                    return "ok", lib.nodes_of(env.compile(q).find(doc))
                if path == "env.compile.apply":
                    return "ok", lib.nodes_of(env.compile(q).apply(doc))
                if path == "module.find":
                    return "ok", lib.nodes_of(jp.find(q, doc))
                if path == "module.finditer":
                    return "ok", lib.nodes_of(list(jp.finditer(q, doc)))
                return "ok", lib.nodes_of(jp.compile(q).find(doc))
            except Exception as e:  # noqa: BLE001
                return "err", lib.exc_info(e)
        return run

    def judge(env, sig, path, stage):
        reg, sigs = model(sig)
        tc = typecheck.check(ast, reg)
        if tc is not None:
            del _LOG[:]
            st, got = use(env, path)()
            calls = len(_LOG)
            del _LOG[:]
            if st == "ok":
                return {"bucket": "rebind:ill-typed-accepted", "what": f"{stage}: with fx declared {SIGS[sig]}, {path}({q!r}) is not well-typed ({tc}) "
                        f"but was accepted ({calls} calls made)", "expected": "JSONPathTypeError", "observed": "accepted"}
            if not got["jsonpath_error"]:
                return {"bucket": f"raised:{got['type']}:{got['frame']}", "what": f"{stage}: {path}({q!r}) raised {got['type']}", "expected": "JSONPathTypeError", "observed": got}
            return None
        f = compare_run(q, ast, doc, reg, sigs, use(env, path))
        if f:
            f["bucket"] = "rebind:" + f["bucket"]
            f["what"] = f"{stage}: with fx declared {SIGS[sig]}, via {path}: " + f["what"]
        return f

    def go(env):
        fobj = mk(case["s1"])
        env.function_extensions["fx"] = fobj
        for path in case["paths"][0]:
            f = judge(env, case["s1"], path, "first binding")
            if f:
                return f
        params, ret = SIGS[case["s2"]]
        if case["via"] == "replace":
            env.function_extensions["fx"] = mk(case["s2"])
        elif case["via"] == "instance-attr":
            fobj.arg_types = [tmap[p] for p in params]
            fobj.return_type = tmap[ret]
        else:
            type(fobj).arg_types = [tmap[p] for p in params]
            type(fobj).return_type = tmap[ret]
        for path in case["paths"][1]:
            f = judge(env, case["s2"], path, f"after the declaration changed ({case['via']})")
            if f:
                return f
        return None

    if case["target"] == "default":
        with lib.default_env_sandbox() as env:
            return go(env)
    return go(jp.JSONPathEnvironment())


def _with_interpreter_variants(specs, tier, n_small, extra=None):
    """The same shard body in child interpreters started with other flags / environment variables."""
    from vlib.runner import INTERPRETERS
    base = dict(extra or {})
    for name in INTERPRETERS:
        s = dict(base, n=n_small if tier == "quick" else n_small * 6, interp=name)
        specs.append(s)
    return specs


def plan(tier, seed):
    if tier == "quick":
        return _with_interpreter_variants([{"n": 800} for _ in range(16)], tier, 100)
    return _with_interpreter_variants([{"n": 8000} for _ in range(16)], tier, 100)


def abnf_parse(q):
    from vlib.ref import abnf
    return abnf.parse(q)


def run_shard(spec, shard):
    tier = spec["tier"]
    names = ["a", "b", "c", "d"]
    from vlib.gen import values as V

    def rebind(r, doc):
        s1 = r.choice(sorted(k for k in SIGS if SIGS[k][0]))
        same_arity = [k for k in SIGS if len(SIGS[k][0]) == len(SIGS[s1][0]) and k != s1]
        s2 = r.choice(same_arity) if r.random() < 0.85 else r.choice(sorted(SIGS))
        reg = dict(BUILTINS)
        reg["fx"] = {"params": SIGS[s1][0], "ret": SIGS[s1][1], "impl": REG[s1]["impl"]}
        dn, ds, dnum = Q.pools(doc)
        g = Q.QGen(r, names=list(dict.fromkeys(dn))[:8] + names[:2], strings=list(dict.fromkeys(ds))[:6] + ["a", ""],
                   registry={"fx": reg["fx"], "count": reg["count"], "length": reg["length"]}, filters=True, max_filter_depth=2, numbers=dnum[:8])
        g.doc = doc
        g.cheap_filters = V.count_nodes(doc) > 120     # cost bound: no quadratic embedded queries over wide values
        g.evalr = ev.Evaluator(reg)
        base = g.guided_query(doc, 0, 1, hit_p=0.9)
        seg = diff.guided_filter_segment(r, g, base[2], doc, registry=reg, need="call", tries=10)
        if seg is None:
            return
        ast = ["q", "$", base[2] + [seg]]
        if (diff.EXCLUDE_R and diff.arg_starts_with_not_or_paren(ast)) or not any(x and x[0] == "call" and x[1] == "fx" for x in Q.walk(ast)):
            return
        text = Q.Renderer(r, 0.1).query(ast)
        ast = Q.strip_hints(ast)
        from vlib.ref import abnf
        res = abnf.classify(text)
        if res.verdict != abnf.VALID or res.ast != ast:
            return
        target = r.choice(["fresh", "default"])
        pool = [p for p in PATHS if target == "default" or p.startswith("env.")]
        case = {"kind": "rebind", "q": text, "ast": ast, "doc": doc, "s1": s1, "s2": s2, "target": target,
                "via": r.choice(["replace", "instance-attr", "class-attr"]),
                "paths": [r.sample(pool, r.randint(1, 2)), r.sample(pool, r.randint(1, 3))]}
        nested = any(x and x[0] == "call" and any(a and a[0] == "call" for a in x[2]) for x in Q.walk(ast))
        shard.case(key=(text, s1, s2, case["via"], target, doc), nontrivial=True,
                   classes={"rebind", "rebind-via:" + case["via"], "rebind-target:" + target} | ({"rebind:nested-call"} if nested else set()),
                   sample={"kind": "rebind", "q": text, "from": SIGS[s1], "to": SIGS[s2], "via": case["via"], "target": target})
        f = examine(case)
        if f:
            shard.fail(f["bucket"], case, f)

    # values on which a built-in could plausibly cut a corner: strings that change length under normalisation or
    # count differently in UTF-16 / bytes, empty and one-element containers, numbers that look like sizes
    SPECIAL = ["", "a", "ab", "e\u0301", "\u1100\u1161", "a\u0308b", "\u00e9", "\U0001F600", "\U0001F468\u200d\U0001F469", "\ufb01", "\u00df", "\u0130",
               "\u212b", " ", "\x00", "\ud7ff\ue000", "0", "12", [], [[]], [0], [1, 2], [None], {}, {"a": 1}, {"a": [], "b": {}}, {"": 0},
               0, 1, 2, -1, 1.0, 2.5, True, False, None, [True, 1, 1.0], {"k": "e\u0301"}]

    def builtin_battery(r):
        """A built-in applied to records holding the special values, compared with the reference's own answer for
        one of them (so that the comparison is decisive), on plain and on dict/list/str-subclass data."""
        recs = [{"a": V.fresh(r.choice(SPECIAL)), "b": r.choice(["e\u0301", "a", 1, None])} for _ in range(r.randint(3, 7))]
        if r.random() < 0.3:
            recs.append({"b": 0})
        fn = r.choice(["length", "length", "count", "value"])
        arg = {"length": r.choice(["@.a", "@.a", "@.a[0]", "@.b", "@", "$[0].a"]),
               "count": r.choice(["@.a[*]", "@.*", "@..*", "@.a.*", "@.a", "$[*].a"]),
               "value": r.choice(["@.a", "@.a[0]", "@.*", "@.a.*", "@..a"])}[fn]
        if fn == "length" and r.random() < 0.35:
            # the argument is itself a call: what it returns (an empty array, say) is a value, not a nodelist
            arg = r.choice(["value(%s)", "value(%s)", "pv_v(%s)"]) % r.choice(["@.a", "@.a", "@.b", "@.a[0]", "@.*"])
            if "pv_v" in arg and "@.*" in arg:
                arg = "value(@.*)"
        probe = "$[?%s(%s) == 0]" % (fn, arg)
        ast0 = abnf_parse(probe)
        # the reference's value of the call for a random record becomes the right-hand side
        log = []
        ev.Evaluator(REG, call_log=log).query(ast0, recs)
        op = r.choice(["==", "==", "!=", "<", ">="])
        rhs = None
        if fn in ("length", "count"):
            lens = []
            for rec in recs:
                e = ev.Evaluator(REG)
                nodes = e.query(abnf_parse("$[?%s(%s) >= 0]" % (fn, arg)), [rec])
                lens.append(nodes)
            # pick a number near the answers: 0..4
            rhs = str(r.choice([0, 1, 2, 2, 3, 4]))
        else:
            rhs = r.choice(["1", "'e\\u0301'", "'a'", "0", "null", "true", "''", "1.0"])
        q = "$[?%s(%s) %s %s]" % (fn, arg, op, rhs)
        ast = abnf_parse(q)
        case = {"q": q, "ast": ast, "doc": recs}
        if r.random() < 0.4:
            case["exotic"] = r.randrange(1, 2**31)
        shard.case(key=(q, recs, case.get("exotic")), nontrivial=True, classes={"builtin-battery", "builtin-battery:" + fn} | ({"builtin-battery:exotic"} if case.get("exotic") else set()),
                   sample={"q": q, "doc": recs})
        f = examine(case)
        if f:
            shard.fail(f["bucket"], case, f)

    def body(r):
        doc = diff.make_doc(r, tier, names=names, falsy_bias=0.3)
        k0 = r.random()
        if k0 < 0.12:
            return rebind(r, doc)
        if k0 < 0.3:
            return builtin_battery(r)
        # a registry restricted to a few probes + the built-ins keeps calls frequent
        chosen = r.sample(sorted(SIGS), 6) + ["length", "count", "value"]
        reg = {k: REG[k] for k in chosen}
        dn, ds, dnum = Q.pools(doc)
        g = Q.QGen(r, names=list(dict.fromkeys(dn))[:8] + names[:2], strings=list(dict.fromkeys(ds))[:6] + ["a", ""],
                   registry=reg, filters=True, max_filter_depth=2, numbers=dnum[:8])
        g.doc = doc
        g.cheap_filters = V.count_nodes(doc) > 120     # cost bound: no quadratic embedded queries over wide values
        g.evalr = ev.Evaluator(reg)
        base = g.guided_query(doc, 0, 2, hit_p=0.9)
        # the filter under test: built around at least one call, guided by a node the base reaches
        if r.random() < 0.15:
            # the same function called twice in one filter with look-alike arguments (1 / true / 1.0 / "1" ...)
            cands = [n for n in chosen if n in SIGS and SIGS[n][0] and SIGS[n][0][0] == VALUE and len(SIGS[n][0]) == 1]
            if not cands:
                return
            fn = r.choice(cands)
            ret = SIGS[fn][1]
            pairs = [(1, True), (0, False), (1, 1.0), (1, "1"), (0, None), ("", None), (0, -0.0), ("a", "A"), (True, "true")]
            x, y = r.choice(pairs)
            if r.random() < 0.5:
                x, y = y, x

            def lit(v):
                return ["lit", v] if not isinstance(v, (int, float)) or isinstance(v, bool) else ["lit", v, repr(v)]

            def use(arg):
                c = ["call", fn, [arg]]
                if ret == VALUE:
                    return ["cmp", r.choice(["==", "!="]), c, lit(r.choice([x, y]))]
                if ret == NODES:
                    return ["test", c] if r.random() < 0.5 else ["cmp", "==", ["call", "count", [c]], ["lit", 0, "0"]]
                return ["test", c] if r.random() < 0.6 else ["not", ["test", c]]

            expr = [r.choice(["and", "or"]), [use(lit(x)), use(lit(y))]]
            if r.random() < 0.3:
                expr[1].append(["test", ["q", "@", []]])
            seg = ["child", [["filter", expr]]]
        else:
            seg = diff.guided_filter_segment(r, g, base[2], doc, registry=reg, need="call", tries=10)
        if seg is None:
            return
        ast = ["q", "$", base[2] + [seg]]
        if diff.EXCLUDE_R and diff.arg_starts_with_not_or_paren(ast):
            shard.excluded["R:function-argument-starting-with-!-or-("] += 1
            return
        text = Q.Renderer(r, 0.1).query(ast)
        ast = Q.strip_hints(ast)
        from vlib.ref import abnf, typecheck
        res = abnf.classify(text)
        if res.verdict == abnf.DISPUTED:
            shard.notes["disputed"] += 1
            return
        if res.verdict != abnf.VALID or res.ast != ast or typecheck.check(ast, REG) is not None:
            from vlib.runner import HarnessError
            raise HarnessError(f"generator/parser disagreement for {text!r}: {res!r} {typecheck.check(ast, REG)}")
        case = {"q": text, "ast": ast, "doc": doc}
        if r.random() < 0.08:
            case["exotic"] = r.randrange(1, 2**31)
        log = []
        ev.Evaluator(REG, call_log=log).query(ast, doc)
        nt = False
        classes = set()
        for n, conv in log:
            ps = REG[n]["params"]
            classes.add("fn:" + (n if n in BUILTINS else "probe"))
            for p, a in zip(ps, conv):
                if p == VALUE and a is NOTHING:
                    nt = True
                    classes.add("arg:Value<-Nothing")
                elif p == VALUE:
                    classes.add("arg:Value<-" + ev.kind(a))
                elif p == NODES:
                    classes.add("arg:Nodes<-" + ("0" if not a else "1" if len(a) == 1 else "many"))
                    if len(a) != 1:
                        nt = True
                else:
                    classes.add("arg:Logical<-" + str(a))
        nested = any(x and x[0] == "call" and any(a and a[0] == "call" for a in x[2]) for x in Q.walk(ast))
        if nested:
            nt = True
            classes.add("nested-call")
        if not log:
            classes.add("no-call-evaluated")
        shard.case(key=(text, doc), nontrivial=nt and bool(log), classes=classes, sample={"q": text, "doc": doc})
        f = examine(case)
        if f:
            shard.fail(f["bucket"], case, f)

    drive(rng(), spec["n"], spec["seed"], body)


def minimise(case, failure, tier):
    if case.get("kind") == "rebind":
        return case, failure
    return diff.minimise_qd(case, failure, examine, registry=REG)


def signature(case, failure):
    return f"C10:{failure['bucket']}"
