"""C13 compile() and find() are total: they return or raise a JSONPathError."""
from __future__ import annotations

import os
import signal
import subprocess
import sys

from vlib import accept, diff, lib, shrink
from vlib.gen import mutate as M
from vlib.gen import queries as Q
from vlib.runner import h64
from vlib.hyp import drive, rng

PROPERTY = "C13"
RULE = ("cases = query strings of Unicode scalar values up to 1024 characters: generated valid queries, one/two-edit "
        "mutants, token sequences, arbitrary Unicode text, structures nested up to 32 deep (parentheses, brackets, "
        "filters, function calls), long chains, number literals with extreme exponents and digit counts; every string "
        "that compiles is applied to a battery of JSON values with every kind as root and as the child under test; "
        "thorough adds coverage-guided atheris (libFuzzer) campaigns with a token dictionary, from a seeded and from "
        "an empty corpus; oracle = compile() and find() either return or raise a subclass of JSONPathError whose "
        "str() can be produced, within a CPU budget of 20 s per case (a budget overrun is re-run alone and only then "
        "reported as a suspected hang); non-trivial = the input starts with '$' and is longer than 3 characters; "
        "distinct by text")
ASSUMPTIONS = ["a case that exceeds 20 s of CPU twice is a suspected hang; one slow observation is inconclusive",
               "JSON values are json.load output (no NaN, string keys) and at most moderately nested"]
TECHNIQUE = "Hypothesis generation + mutation + atheris coverage-guided fuzzing (thorough); crash oracle restricted to non-JSONPathError exceptions, bucketed by (type, innermost package frame)"
LEVEL_TEXT = ("Valid, almost valid and garbage query strings (incl. deep nesting and extreme numbers) are compiled and, "
              "when they compile, evaluated on a battery of values of every kind; any exception that is not a "
              "JSONPathError (or whose str() fails), and any confirmed CPU-budget overrun, is a violation. Sampled; "
              "thorough adds libFuzzer campaigns.")
LEVEL_NOTE = "Exceptions are bucketed by root cause (type + innermost frame in the package); termination is only checked up to a generous CPU budget."

CPU_BUDGET = 20.0
HARD_WALL = 120      # seconds of wall clock before the watchdog ends a worker stuck in one call
BATTERY = [
    None, True, False, 0, -1, 1.5, "", "a", [], {},
    [None, True, False, 0, 1.5, "", "a", [], {}, [1], {"a": 1}],
    {"a": None, "b": False, "c": 0, "d": "", "e": [], "f": {}, "g": [1, {"a": "x"}], "h": {"a": {"a": 1}}},
    [[[[1]]], {"a": [{"a": [{"a": 1}]}]}, "abc", 2**53, -2**53, 1e308, -0.0],
    {"": 1, "0": 2, "-1": 3, " ": 4, "'": 5, "\n": 6, "\U0001F600": 7},
    # records whose members a-e hold look-alike values of every kind (same-size objects with other names, ...)
    [{"a": {"x": 1}, "b": {"y": 1}, "c": [1], "d": [True], "e": None},
     {"a": {"x": 1, "z": 0}, "b": {"x": 1, "y": 2}, "c": "1", "d": 1, "e": [{"x": 1}, {"y": 1}]},
     {"a": [{"x": None}], "b": [{"y": None}], "c": {"a": {"b": 1}}, "d": {"a": {"c": 1}}, "e": 1.5},
     {"a": "ab", "b": "\U0001F600", "c": 2**60, "d": -1e300, "e": {"": {}}}],
    {"a": {"a": {"x": 1}, "b": {"y": 1}}, "b": [[], {}, [[]], [{}]], "c": {"c": {"c": {"c": None}}}, "d": "d", "e": False},
    # what json.loads makes of "\ud800": strings with lone surrogates, as subjects, patterns, names
    [{"s": "a", "p": "\ud800", "a": "\udc00"}, {"s": "\udfff", "p": "a", "a": "x\ud83d"}, {"\ud800": 1, "a": "a"}],
]


class Budget(Exception):
    pass


def _alarm(signum, frame):
    raise Budget()


def _short(v):
    try:
        return str(v)[:60]
    except RecursionError:
        return "<a value nested too deeply to print>"


def run_case(q, extra_doc=None, inline=False):
    """Return None or a failure dict."""
    if inline:
        # one-liner style: nothing but the query keeps its environment alive, and a collection runs in between
        import gc
        status, got = lib.compile_(q, lib.JSONPathEnvironment())
        gc.collect()
    else:
        status, got = lib.compile_(q)
    if status == "err":
        if got["type"] == "Budget":
            raise Budget()
        if not got["jsonpath_error"]:
            return {"bucket": f"compile:{got['type']}:{got['frame']}", "stage": "compile",
                    "what": f"compile({q[:120]!r}{'...' if len(q) > 120 else ''}) raised {got['type']}: {got['str']}",
                    "expected": "a JSONPathError or a query", "observed": got}
        if not got["str_ok"]:
            return {"bucket": f"str-of-error:{got['type']}:{got['frame']}", "stage": "compile",
                    "what": f"str() of the {got['type']} raised by compile({q[:120]!r}) fails", "expected": "a message",
                    "observed": got}
        return None
    cq = got
    try:
        str(cq)
    except Budget:
        raise
    except Exception as e:  # noqa: BLE001
        info = lib.exc_info(e)
        return {"bucket": f"str-of-query:{info['type']}:{info['frame']}", "stage": "str",
                "what": f"str(compile({q[:120]!r})) raised {info['type']}: {info['str']}", "expected": "a string", "observed": info}
    for v in ([extra_doc] if extra_doc is not None else BATTERY):
        if inline:
            try:
                it = lib.JSONPathEnvironment().finditer(q, v)
                gc.collect()
                st, r = "ok", list(it)
            except Exception as e:  # noqa: BLE001
                st, r = "err", lib.exc_info(e)
            if st == "ok":
                st, r = lib.find(cq, v)
        else:
            st, r = lib.find(cq, v)
        if st == "err":
            if r["type"] == "Budget":
                raise Budget()
            if not r["jsonpath_error"]:
                return {"bucket": f"find:{r['type']}:{r['frame']}", "stage": "find",
                        "what": f"find({q[:120]!r}, {_short(v)}) raised {r['type']}: {r['str']}",
                        "expected": "a JSONPathError or a nodelist", "observed": r, "value": _short(v)}
            if not r["str_ok"]:
                return {"bucket": f"str-of-error:{r['type']}:{r['frame']}", "stage": "find",
                        "what": f"str() of the {r['type']} raised by find({q[:120]!r}) fails", "expected": "a message",
                        "observed": r}
    return None


def deep_value_doc(depth, shape):
    a = b = 1
    for _ in range(depth):
        a, b = ([a], [b]) if shape == "arr" else ({"k": a}, {"k": b})
    return [{"a": a, "b": b}, {"a": a, "b": 0}]


def examine(case):
    q = case["q"]
    if case.get("deep_value"):
        case = dict(case, doc=deep_value_doc(*case["deep_value"]))
    from vlib.runner import inflight
    old = signal.signal(signal.SIGVTALRM, _alarm)
    small = {k: v for k, v in case.items() if k != "doc"} if case.get("deep_value") else case
    try:
      with inflight(small, HARD_WALL):     # a call stuck inside C code cannot be interrupted by the CPU budget below
          for attempt in (1, 2):
              signal.setitimer(signal.ITIMER_VIRTUAL, CPU_BUDGET)
              try:
                  return run_case(q, case.get("doc"), case.get("inline", False))
              except Budget:
                  if attempt == 2:
                      return {"bucket": "suspected-hang", "what": f"compile/find of {q[:120]!r} exceeded {CPU_BUDGET}s of CPU twice",
                              "expected": f"termination within {CPU_BUDGET}s", "observed": "budget exceeded twice"}
              finally:
                  signal.setitimer(signal.ITIMER_VIRTUAL, 0)
    finally:
        signal.signal(signal.SIGVTALRM, old)
    return None


# ---------------------------------------------------------------- generators of stress inputs
def nested(r):
    d = r.randrange(2, 33)
    k = r.randrange(9)
    if k == 0:
        return "$[?" + "(" * d + "@.a" + ")" * d + "]"
    if k == 1:
        return "$[?" + "!(" * d + "@.a" + ")" * d + "]"
    if k == 2:
        return "$" + "[?@" * d + ".a" + "]" * d
    if k == 3:
        return "$[?" + "length(value(" * (d // 2) + "@.a" + "))" * (d // 2) + " == 1]"
    if k == 4:
        return "$[?" + "count(@[?" * d + "@.a" + "]) > 0" * d + "]"
    if k == 5:
        return "$" + "[" * d + "0" + "]" * d
    if k == 6:
        return "$[?" + "(" * d + "@.a" + ")" * (d - r.randrange(0, 3)) + "]"
    if k == 7:
        return "$[?" + "@[?" * d + "$" + "]" * d + "]"
    return "$[?" + "(@.a && " * d + "@.b" + ")" * d + "]"


def long_input(r):
    k = r.randrange(8)
    n = r.choice([50, 120, 250, 330])
    if k == 0:
        return "$" + ".a" * n
    if k == 1:
        return "$[?" + " && ".join(["@.a==1"] * (n // 4)) + "]"
    if k == 2:
        return "$['" + "x\\u00e9\\n" * (n // 4) + "']"
    if k == 3:
        return "$" + " " * n + ".a" + "\n" * n + "[0]"
    if k == 4:
        return "$[" + ",".join(str(i) for i in range(n // 2)) + "]"
    if k == 5:
        return "$[?" + " || ".join(["match(@.a, 'a*')"] * (n // 10)) + "]"
    if k == 6:
        return "$.." + "a" * n + "..[" + ":".join(["1"] * 3) + "]" * 1
    return "$[?@.a == '" + "\U0001F600" * n + "']"


NUMBERS = ["1e400", "-1e400", "1e-400", "1E+999999999", "1e-999999999", "1.5e308", "1.7976931348623157e308", "2e308",
           "0." + "0" * 300 + "1", "9" * 400, "-" + "9" * 400, "9" * 400 + ".5", "1e" + "9" * 30, "1e+0000001",
           "0e999", "-0e-999", "1.0e+400", "9007199254740993", "1e22", "123456789012345678901234567890", "4e-324", "5e-325",
           "1e308", "-1e308", "0.1e-307"]


def number_input(r):
    n = r.choice(NUMBERS)
    k = r.randrange(6)
    if k == 0:
        return f"$[?@.a == {n}]"
    if k == 1:
        return f"$[?{n} < @]"
    if k == 2:
        return f"$[{n}]"
    if k == 3:
        return f"$[{n}:{r.choice(NUMBERS)}:{r.choice(NUMBERS)}]"
    if k == 4:
        return f"$[?length(@) >= {n}]"
    return f"$[?match(@.a, {n}) || @[{n}]]"


ARGS = ["@.a", "(@.b)", "!@.c", "1", "'x'", "@.*", "count(@.*)", "((@.a))", "$", "length(@)", "(1)", "true", "@", "$..a", "(@.a == 1)",
        "match(@.a, 'x')", "match(@.s, @.p)", "search(@.a, @.p)", "@.s", "@.p", "value(@.a)", "(count(@.*))", "!(@.a)", "null", "-0", "'[z-a]'", "@[?@.a]", "(@.a) && @.b", "nope(@)"]


def call_shape(r):
    """Function calls of every arity with arguments of every syntactic class (well-typed or not)."""
    f = r.choice(["length", "count", "value", "match", "search", "nope", "f_1", "true", "null"])
    args = ", ".join(r.choice(ARGS) for _ in range(r.randrange(0, 5)))
    call = f"{f}({args})"
    k = r.randrange(6)
    if k == 0:
        return f"$[?{call}]"
    if k == 1:
        return f"$[?{call} == {r.choice(ARGS)}]"
    if k == 2:
        return f"$[?!{call} && ({call})]"
    if k == 3:
        return f"$[?{r.choice(ARGS)} {r.choice(['<', '==', '!=', '>='])} {call}]"
    if k == 4:
        return f"$[?count(@[?{call}]) > 0]"
    return f"$..[?{call} || {r.choice(ARGS)}]"


def escape_input(r):
    """A quoted literal with an escape whose payload is drawn from characters that number parsers elsewhere tolerate."""
    alpha = ["0", "4", "A", "f", "d", "8", " ", "\t", "+", "-", "_", "x", "\n", "\u0664", "g", "\ud7ff", "{", "}"]
    quote = r.choice("'\"")
    k = r.random()
    if k < 0.6:
        esc = "\\u" + "".join(r.choice(alpha) for _ in range(r.choice([4, 4, 4, 3, 5, 8])))
        if r.random() < 0.3:
            esc += "\\u" + "".join(r.choice(alpha) for _ in range(4))
    else:
        esc = "\\" + r.choice(["x41", "U00000041", "N{DASH}", "0", "101", "\n", " ", "'", "\"", "a", "e", "v", "u{41}"])
    lit = quote + r.choice(["", "a", "ab"]) + esc + r.choice(["", "z"]) + quote
    return r.choice(["$[%s]", "$[?@ == %s]", "$[?match(@, %s)]", "$[?@.a == %s || @.b]", "$.a[%s, 0]", "$[?length(%s) == 1]"]) % lit


def unicode_text(r):
    pools = ["$@.[]()?*!=<>&|,:'\"\\ \t\n\r", "abcxyz_019eE+-", "\u00e9\u4e2d\U0001F600\u2028\x00\x1f\x7f\ufeff\uffff\U0010ffff"]
    n = r.choice([1, 2, 5, 10, 30, 100, 400, 1024])
    return ("$" if r.random() < 0.6 else "") + "".join(r.choice(r.choice(pools)) for _ in range(r.randrange(0, n)))


def plan(tier, seed):
    if tier == "quick":
        specs = [{"mode": "hyp", "n": 800} for _ in range(16)]
    else:
        specs = [{"mode": "hyp", "n": int(os.environ.get("VERIF_C13_N", "15000"))} for _ in range(16)]
        specs += [{"mode": "atheris", "runs": int(os.environ.get("VERIF_ATHERIS_RUNS", "1500000")), "corpus": "seeded" if i % 2 == 0 else "empty", "idx": i}
                  for i in range(8)]
    return specs


def record(shard, q, origin, inline=False):
    case = {"q": q}
    if inline:
        case["inline"] = True
        case["doc"] = BATTERY[h64(q) % len(BATTERY)]
        origin = origin + "+environment-dropped"
    stage = "rejected"
    from vlib.runner import inflight
    with inflight(case, HARD_WALL):
        st, got = lib.compile_(q)
    if st == "ok":
        stage = "compiled"
    shard.case(key=q, nontrivial=q.startswith("$") and len(q) > 3, classes={"gen:" + origin, "stage:" + stage},
               sample={"q": q[:200], "origin": origin, "stage": stage})
    f = examine(case)
    if f:
        shard.fail(f["bucket"], case, f, size=len(q))


def run_shard(spec, shard):
    if spec["mode"] == "atheris":
        return run_atheris(spec, shard)

    def body(r):
        ast, text, used = accept.base_query(r, shard)
        record(shard, text, "valid")
        if r.random() < 0.15:
            record(shard, text, "valid", inline=True)
            record(shard, call_shape(r), "call-shape", inline=True)
        for _ in range(2):
            m, kinds = M.mutant(text, r)
            record(shard, m, "mutant")
        record(shard, M.token_sequence(r, 12), "token-sequence")
        record(shard, call_shape(r), "call-shape")
        record(shard, escape_input(r), "escape")
        k = r.randrange(4)
        if k == 0:
            record(shard, nested(r), "nested")
        elif k == 1:
            record(shard, long_input(r), "long")
        elif k == 2:
            record(shard, number_input(r), "number")
        else:
            record(shard, unicode_text(r), "unicode-text")

    drive(rng(), spec["n"], spec["seed"], body)
    if spec["shard"] == 0:
        # evaluation that is slow but finite (a regular expression that backtracks for a second or two) must still
        # complete or raise a JSONPathError - never some other exception
        for q, doc in (("$[?match(@, '(a|aa)+c')]", ["a" * 34]), ("$[?search(@, '(a|aa)+c')]", ["a" * 33]),
                       ("$[?match(@, '(a|aa|aaa)+b')]", ["a" * 27])):
            case = {"q": q, "doc": doc}
            shard.case(key=(q, doc), nontrivial=True, classes={"gen:slow-regex"}, sample={"q": q, "origin": "slow-regex"})
            f = examine(case)
            if f:
                shard.fail(f["bucket"], case, f, size=len(q))
    if spec["shard"] == 1:
        # values nested far deeper than any query: every evaluation path that looks INTO a value (comparison of
        # containers, function arguments, filters over the deep part) must complete or raise a JSONPathError
        for depth in (150, 400, 600, 900, 1500, 3000):
            for shape in ("arr", "obj"):
                for q in ("$[?@.a == @.b]", "$[?@.a != @.b]", "$[?@.a <= @.b]", "$[?@.a == $[1].a]", "$[?length(@.a) == 1]", "$[?value(@.a) == @.b]",
                          "$[?count(@.*) == 2]", "$[?@.a]", "$[?match(@.a, 'x')]", "$[0].a", "$[?@.b == 0].a"):
                    case = {"q": q, "deep_value": [depth, shape]}
                    shard.case(key=(q, depth, shape), nontrivial=True, classes={"gen:deep-value"}, sample={"q": q, "origin": f"value nested {depth} deep ({shape})"})
                    f = examine(case)
                    if f:
                        shard.fail(f["bucket"], case, f, size=depth)


def run_atheris(spec, shard):
    """A libFuzzer campaign in a child process; crash artifacts become cases."""
    here = os.path.dirname(os.path.dirname(os.path.abspath(__file__)))
    work = os.path.join(here, "out", f"atheris-{spec['seed']}-{spec['idx']}")
    import shutil
    shutil.rmtree(work, ignore_errors=True)     # a fresh corpus directory: an interrupted earlier run may have left one
    os.makedirs(work, exist_ok=True)
    cmd = [sys.executable, "-X", "utf8", os.path.join(here, "fuzz", "compile_target.py"), "--work", work,
           "--corpus", spec["corpus"], "--runs", str(spec["runs"]), "--seed", str(spec["seed"] % (2**31))]
    try:
        p = subprocess.run(cmd, capture_output=True, text=True, timeout=3600)
    except subprocess.TimeoutExpired:
        shard.notes["atheris-timeout"] += 1
        return
    stats = os.path.join(work, "stats.json")
    if not os.path.exists(stats):
        shard.notes["atheris-unavailable"] += 1
        shard.notes["atheris-stderr:" + (p.stderr or "")[-120:].replace("\n", " ")] += 1
        return
    import json

    s = json.load(open(stats))
    shard.evaluations += s["executions"]
    shard.classes["gen:atheris-" + spec["corpus"]] += s["executions"]
    shard.classes["atheris:compiled"] += s["compiled"]
    for h in s["nontrivial_hashes"]:
        shard.nontrivial.add(h)
    shard.notes["atheris-nontrivial-hashes-capped-at-200000"] += 0
    for smp in s.get("samples", [])[:3]:
        shard.samples.append({"q": smp, "origin": "atheris-" + spec["corpus"]})
    for q in s["failures"]:
        case = {"q": q}
        f = examine(case)
        if f:
            shard.fail(f["bucket"], case, f, size=len(q))
        else:
            shard.notes["atheris-failure-not-reproduced"] += 1


def minimise(case, failure, tier):
    bucket = failure["bucket"]
    if bucket == "suspected-hang":
        return case, failure

    def ok(t):
        f = examine({"q": t})
        return f is not None and f["bucket"] == bucket

    t = shrink.shrink_text(case["q"], ok, shrink.Budget(3000))
    c2 = {"q": t}
    return c2, examine(c2) or failure


def signature(case, failure):
    return f"C13:{failure['bucket']}"
