"""C01 Structural selection (segments, name/index/slice/wildcard) follows RFC 9535."""
from __future__ import annotations

from vlib import lib, diff
from vlib.gen import queries as Q
from vlib.gen import values as V
from vlib.hyp import drive, rng, st

PROPERTY = "C01"
RULE = ("cases = (filter-free query AST rendered with random lexical choices, JSON value drawn so names and "
        "indices hit); oracle = reference nodelist (locations in order, duplicates kept, values by identity); "
        "non-trivial = non-empty result and (>= 2 segments, or a descendant segment, or >= 2 selectors in one "
        "segment); distinct by (query text, document)")
ASSUMPTIONS = ["vlib/ref/evaluate.py implements RFC 9535 2.3-2.5 (self-tested against RFC vectors)",
               "documents are what json.load produces (string keys, no NaN)"]
TECHNIQUE = "Hypothesis property-based testing, differential against an independent RFC 9535 reference evaluator"
LEVEL_TEXT = ("Generated filter-free queries (all selector kinds, child/descendant segments, every lexical spelling) "
              "x generated JSON values, each compared node for node (location, identity, order, duplicates) with "
              "an independent reference evaluator. Sampled, not exhaustive.")
LEVEL_NOTE = "Trusted: the reference evaluator and parser in vlib/ref (self-test + generator/parser triangulation on every case)."

NAMES = ["a", "b", "c", "d", "e", "0", "1", "-1", "a b", "", "'", "\u00e9", "\U0001F600", "_x", "A1", "\\", "a\\", "\\\\", "\"", "a'b\"", "\\'", "e\u0301", "\u00e9", "\u212b", "\u00c5", "\uf900", "a\n"]



def _with_interpreter_variants(specs, tier, n_small, extra=None):
    """The same shard body in child interpreters started with other flags / environment variables."""
    from vlib.runner import INTERPRETERS
    base = dict(extra or {})
    for name in INTERPRETERS:
        s = dict(base, n=n_small if tier == "quick" else n_small * 6, interp=name)
        specs.append(s)
    return specs


def plan(tier, seed):
    if tier == "quick":
        return _with_interpreter_variants([{"n": 1000} for _ in range(16)], tier, 150)
    return _with_interpreter_variants([{"n": 10000} for _ in range(16)], tier, 150)


def examine(case):
    if case.get("kind") == "deep":
        # a value nested hundreds / thousands of levels, an environment whose max_recursion_depth allows it, and the
        # recursion headroom a host program with the default limit would have
        from checks import c08
        from vlib.ref import abnf
        doc = c08.deep_doc(case["depth"], case["shape"])
        c2 = {"q": case["q"], "ast": abnf.parse(case["q"]), "doc": doc}
        with lib.host_stack():
            f = diff.examine_find(c2, env=lib.make_env(max_recursion_depth=100000))
        if f:
            f["expected"] = f["observed"] = None
            f["what"] = f"value nested {case['depth']} levels ({case['shape']}): " + f["what"]
        return f
    return diff.examine_find(case)


def run_shard(spec, shard):
    tier = spec["tier"]

    def body(r):
        names = NAMES[:5] + [r.choice(NAMES) for _ in range(2)]
        doc = diff.make_doc(r, tier, names=names)
        ast, text, used = diff.make_query(r, shard, filters=False, names=names, min_segs=1,
                                          max_segs=5 if tier == "thorough" else 4, big_ints=True, doc=doc)
        case = {"q": text, "ast": ast, "doc": doc}
        if r.random() < 0.08:
            case["exotic"] = r.randrange(1, 2**31)
        if r.random() < 0.08:
            case["alias"] = r.randrange(1, 2**31)
        if r.random() < 0.04:
            # the JSON text of the document is itself a JSON value (a string): it has no children
            import json
            case["doc"] = doc = r.choice([json.dumps(doc), json.dumps(doc, indent=1), "\n" + json.dumps(doc), json.dumps(doc).encode("utf-8").decode("latin-1")])
            case.pop("exotic", None), case.pop("alias", None)
        if r.random() < 0.05:
            case["ambient"] = r.choice(lib.AMBIENTS[1:])
        if r.random() < 0.08:
            case["interrupted"] = r.randint(1, 90)
        if r.random() < 0.08 and not any(k_ in case for k_ in ("interrupted", "ambient")):
            case["nondet"] = True
        f = examine(case)
        feats = Q.features(ast)
        from vlib.ref import evaluate as ev
        res = ev.find(ast, doc)
        nt = bool(res) and (len(ast[2]) >= 2 or "descendant" in feats or "multi-selector" in feats)
        classes = set(feats) | {"form:" + u for u in used if ":" not in u}
        classes.add("root-object" if isinstance(doc, dict) else "root-array" if isinstance(doc, list) else "root-string-holding-json-text")
        if res:
            classes.add("non-empty")
            locs = [l for l, _ in res]
            if len(set(locs)) < len(locs):
                classes.add("duplicates-in-result")
        for k_ in ("interrupted", "ambient", "alias", "exotic", "nondet"):
            if k_ in case:
                classes.add("variant:" + (k_ if k_ != "interrupted" else "first-application-interrupted-then-reapplied"))
        shard.case(key=(text, doc), nontrivial=nt, classes=classes,
                   sample={"q": text, "doc": doc, "result_len": len(res)})
        if f:
            shard.fail(f["bucket"], case, f)

    drive(rng(), spec["n"], spec["seed"], body)
    if spec["shard"] == 0 and not spec.get("interp"):
        for depth in (300, 1100, 3000):
            for shape in ("obj", "arr", "mix"):
                for q in ("$..leaf", "$..x", "$..k.leaf"):
                    case = {"kind": "deep", "depth": depth, "shape": shape, "q": q}
                    shard.case(key=("deep", depth, shape, q), nontrivial=True, classes={"deep-value"}, sample=case)
                    f = examine(case)
                    if f:
                        shard.fail(f["bucket"], case, f)


def minimise(case, failure, tier):
    if case.get("kind") == "deep":
        return case, failure
    return diff.minimise_qd(case, failure, examine)


def signature(case, failure):
    return diff.sig_of(PROPERTY, case, failure)
