"""C02 Filter selection follows RFC 9535 (existence, logic, scoping, iteration)."""
from __future__ import annotations

from vlib import lib, diff
from vlib.gen import queries as Q
from vlib.gen import values as V
from vlib.hyp import drive, rng
from vlib.ref import evaluate as ev

PROPERTY = "C02"
RULE = ("cases = (query AST with filter selectors of every shape - nested filters, @/$ queries incl. bare @ and "
        "bare $, comparisons, built-in calls, any parenthesisation - rendered with random lexical choices, JSON "
        "value whose containers hold children of every kind incl. null/false/0/\"\"/[]/{}); oracle = reference "
        "evaluator; non-trivial = some filter was applied to a container with >= 2 children and selected a proper "
        "non-empty subset, or the query uses '$' inside a filter or a nested filter, with a non-empty final result "
        "or a decisive filter; distinct by (query text, document)")
ASSUMPTIONS = ["vlib/ref/evaluate.py implements RFC 9535 2.3.5 filter semantics (self-tested against RFC vectors)",
               "built-in functions only; no short-circuit difference is observable because built-ins are pure"]
TECHNIQUE = "Hypothesis property-based testing, differential against an independent RFC 9535 reference evaluator"
LEVEL_TEXT = ("Generated well-typed filter queries x generated JSON values (children of every kind), compared node "
              "for node with an independent reference evaluator; sampled, not exhaustive.")
LEVEL_NOTE = "Trusted: vlib/ref evaluator, parser, I-Regexp matcher (self-test + triangulation)."

NAMES = ["a", "b", "c", "d", "e"]



def _with_interpreter_variants(specs, tier, n_small, extra=None):
    """The same shard body in child interpreters started with other flags / environment variables."""
    from vlib.runner import INTERPRETERS
    base = dict(extra or {})
    for name in INTERPRETERS:
        s = dict(base, n=n_small if tier == "quick" else n_small * 6, interp=name)
        specs.append(s)
    return specs


def plan(tier, seed):
    if tier == "quick":
        return _with_interpreter_variants([{"n": 1000} for _ in range(16)], tier, 120)
    return _with_interpreter_variants([{"n": 8000} for _ in range(16)], tier, 120)


def examine(case):
    return diff.examine_find(case)


def run_shard(spec, shard):
    tier = spec["tier"]

    def wide_case(r):
        """A filter over a wide container of look-alike values (1 / true / 1.0 / "1" ...) and small records,
        comparing the child (or a member of it) with a look-alike literal or with another child."""
        w = V.wide(r, names=NAMES)
        doc = r.choice([w, {"a": w, "b": 1}, [w, [1, True]]])
        pre = "" if doc is w else (".a" if isinstance(doc, dict) else "[0]")
        lits = ["1", "true", "1.0", "0", "false", "-0.0", "'1'", "null", "''", "'a'", "2", "10", "'10'", "1e0", "0.0"]
        sub = r.choice(["@", "@", "@", "@.a", "@.b", "@[0]", "$%s[0]" % pre, "$%s[1]" % pre])
        op = r.choice(["==", "==", "!=", "<", "<=", ">", ">="])
        cmp_ = "%s %s %s" % ((sub, op, r.choice(lits)) if r.random() < 0.7 else (r.choice(lits), op, sub))
        expr = r.choice([cmp_, cmp_, "!(%s)" % cmp_, "%s || @ == %s" % (cmp_, r.choice(lits)), "%s && @" % cmp_, sub if sub != "@" else cmp_])
        seg = r.choice(["[?%s]", "[?%s]", "..[?%s]", "[?%s][0]"]) % expr
        text = "$" + pre + seg
        from vlib.ref import abnf
        res = abnf.classify(text)
        if res.verdict != abnf.VALID:
            from vlib.runner import HarnessError
            raise HarnessError(f"wide_case built an invalid query: {text!r}")
        ast = res.ast
        case = {"q": text, "ast": ast, "doc": doc}
        if r.random() < 0.2:
            case["exotic"] = r.randrange(1, 2**31)
        elif r.random() < 0.3:
            case["nondet"] = True
        e = ev.Evaluator()
        e.filter_stats = []
        res_nodes = e.query(ast, doc)
        decisive = any(n >= 2 and 0 < k < n for n, k in e.filter_stats)
        shard.case(key=(text, doc), nontrivial=decisive, classes={"wide-lookalike-container", "filter"} | ({"decisive-filter"} if decisive else set()),
                   sample={"q": text, "doc": "wide container of %d children" % len(w), "selected": len(res_nodes)})
        f = examine(case)
        if f:
            shard.fail(f["bucket"], case, f)

    def body(r):
        if r.random() < 0.06:
            return wide_case(r)
        doc = diff.make_doc(r, tier, names=NAMES, falsy_bias=0.35)
        ast, text, used = diff.make_query(r, shard, filters=True, names=NAMES, min_segs=1, max_segs=3, doc=doc,
                                          max_filter_depth=3 if tier == "thorough" else 2)
        feats = Q.features(ast)
        if "filter" not in feats or r.random() < 0.5:
            # make sure a filter is applied to a node the query really reaches
            dn, ds, dnum = Q.pools(doc)
            g = Q.QGen(r, names=list(dict.fromkeys(dn))[:8] + NAMES[:2], strings=list(dict.fromkeys(ds))[:6] + ["a", ""],
                       numbers=dnum[:8], max_filter_depth=3 if tier == "thorough" else 2)
            g.doc = doc
            g.cheap_filters = V.count_nodes(doc) > 120     # cost bound: no quadratic embedded queries over wide values
            g.evalr = ev.Evaluator()
            base = [s for s in ast[2] if "filter" not in Q.features(["q", "$", [s]])][:2]
            seg = diff.guided_filter_segment(r, g, base, doc)
            ast = ["q", "$", base + [seg] + ([g.segment(0)] if r.random() < 0.3 else [])]
            if diff.EXCLUDE_R and diff.arg_starts_with_not_or_paren(ast):
                shard.excluded["R:function-argument-starting-with-!-or-("] += 1
                return
            rd = Q.Renderer(r, 0.15)
            text = rd.query(ast)
            used = rd.used
            ast = Q.strip_hints(ast)
            from vlib.ref import abnf
            res = abnf.classify(text)
            if res.verdict == abnf.DISPUTED:
                shard.notes["disputed-generated"] += 1
                return
            if res.verdict != abnf.VALID or res.ast != ast:
                from vlib.runner import HarnessError
                raise HarnessError(f"triangulation failed for {text!r}: {res!r}")
            feats = Q.features(ast)
        case = {"q": text, "ast": ast, "doc": doc}
        if r.random() < 0.08:
            case["exotic"] = r.randrange(1, 2**31)
        if r.random() < 0.08:
            case["alias"] = r.randrange(1, 2**31)
        if r.random() < 0.05:
            case["ambient"] = r.choice(lib.AMBIENTS[1:])
        if r.random() < 0.08:
            case["interrupted"] = r.randint(1, 90)
        if r.random() < 0.08 and not any(k_ in case for k_ in ("interrupted", "ambient")):
            case["nondet"] = True
        e = ev.Evaluator()
        e.filter_stats = []
        res = e.query(ast, doc)
        decisive = any(n >= 2 and 0 < k < n for n, k in e.filter_stats)
        nt = decisive or (("abs-in-filter" in feats or Q.filter_depth(ast) >= 2) and bool(e.filter_stats))
        classes = {f for f in feats}
        classes |= {"form:" + u for u in used if ":" not in u}
        if decisive:
            classes.add("decisive-filter")
        if res:
            classes.add("non-empty")
        if Q.filter_depth(ast) >= 2:
            classes.add("nested-filter")
        for k_ in ("interrupted", "ambient", "alias", "exotic", "nondet"):
            if k_ in case:
                classes.add("variant:" + (k_ if k_ != "interrupted" else "first-application-interrupted-then-reapplied"))
        shard.case(key=(text, doc), nontrivial=nt, classes=classes, sample={"q": text, "doc": doc, "selected": len(res)})
        f = examine(case)
        if f:
            shard.fail(f["bucket"], case, f)

    drive(rng(), spec["n"], spec["seed"], body)


def minimise(case, failure, tier):
    return diff.minimise_qd(case, failure, examine)


def signature(case, failure):
    return diff.sig_of(PROPERTY, case, failure)
