"""C19 Reported error positions are real positions in the query text."""
from __future__ import annotations

import re

from vlib import accept, diff, lib, shrink
from vlib.gen import mutate as M
from vlib.gen import queries as Q
from vlib.hyp import drive, rng
from vlib.ref import abnf, typecheck

PROPERTY = "C19"
RULE = ("cases = query texts that compile() rejects: one/two-edit mutants of generated valid queries whose optional "
        "blank space is filled with LF, CRLF, CR and spaces (so errors fall on any line), plus type, name and index "
        "errors injected into valid multi-line queries; oracle = the raised JSONPathError carries a token whose index "
        "i satisfies 0 <= i <= len(q) and belongs to this query text, and str(error) ends with ', line N, column M' "
        "where N = 1 + number of LF before i and M = i - (offset of the character after the last LF before i) "
        "(lines from 1, columns from 0, the convention tests/test_errors.py pins); for a lone CR either convention "
        "is accepted; non-trivial = at least one LF before the reported offset; distinct by text")
ASSUMPTIONS = ["line/column convention as pinned by tests/test_errors.py ($[1,2 -> line 1, column 5)",
               "a lone CR may or may not count as a line terminator (DISPUTED e)"]
TECHNIQUE = "Hypothesis mutation-based generation of rejected multi-line queries; invariant oracle over the reported offset and the printed line/column"
LEVEL_TEXT = ("Rejected single- and multi-line queries of every error class; the reported offset must lie in the text "
              "and the printed line/column must be exactly the line/column of that offset. Sampled.")
LEVEL_NOTE = "Trusted: the dozen lines computing line/column from an offset in this module."

NL_BLANKS = ["\n", "\n", "\r\n", " ", "\n ", " \n", "\n\n", "\t", "\r", "\n\t"]
POS_RE = re.compile(r", line (\d+), column (-?\d+)\Z")


def line_col(q, i, cr_is_newline=False):
    if cr_is_newline:
        # CR, LF and CRLF all end a line
        line, start, j = 1, 0, 0
        while j < i:
            c = q[j]
            if c == "\r":
                if j + 1 < len(q) and q[j + 1] == "\n" and j + 1 < i:
                    j += 1
                elif j + 1 < len(q) and q[j + 1] == "\n":
                    # offset points at the LF of a CRLF: still the old line
                    j += 1
                    continue
                line += 1
                start = j + 1
            elif c == "\n":
                line += 1
                start = j + 1
            j += 1
        return line, i - start
    line = 1 + q.count("\n", 0, i)
    last = q.rfind("\n", 0, i)
    return line, i - (last + 1)


def examine(case):
    q = case["q"]
    try:
        lib.DEFAULT_ENV.compile(q)
        return None
    except Exception as e:  # noqa: BLE001
        from jsonpath_rfc9535 import JSONPathError
        if not isinstance(e, JSONPathError):
            return None  # C13's business
        err = e
    info = lib.exc_info(err)
    tok = getattr(err, "token", None)
    cls = type(err).__name__
    if tok is None:
        return fail(f"no-token:{cls}:{info['frame']}", f"compile({q!r}) raised {cls} without a token: {info['str']}", None, info)
    i = getattr(tok, "index", None)
    if not isinstance(i, int) or isinstance(i, bool) or i < 0 or i > len(q):
        return fail(f"offset-out-of-range:{cls}:{info['frame']}",
                    f"compile({q!r}) reports offset {i!r}, outside 0..{len(q)}: {info['str']}", f"0..{len(q)}", i)
    if getattr(tok, "query", q) != q:
        return fail(f"token-of-another-text:{cls}:{info['frame']}",
                    f"the error token of compile({q!r}) refers to the text {getattr(tok, 'query', None)!r}", q, getattr(tok, "query", None))
    try:
        msg = str(err)
    except Exception as e2:  # noqa: BLE001
        return fail(f"str-raised:{cls}", f"str() of the error raised {type(e2).__name__}", None, repr(e2))
    m = POS_RE.search(msg)
    if not m:
        return fail(f"no-position-in-message:{cls}:{info['frame']}",
                    f"the message of the error for {q!r} does not end with a line and column: {msg!r}", ", line N, column M", msg)
    got = (int(m.group(1)), int(m.group(2)))
    want = line_col(q, i)
    ok = got == want
    if not ok and "\r" in q[:i]:
        ok = got == line_col(q, i, cr_is_newline=True)
    if not ok:
        return fail(f"wrong-line-column:{cls}", f"error at offset {i} of {q!r} is printed as line {got[0]}, column {got[1]}; "
                    f"that offset is line {want[0]}, column {want[1]}", list(want), list(got))
    return None


def fail(bucket, what, expected, observed):
    return {"bucket": bucket, "what": what, "expected": expected, "observed": observed}



def _with_interpreter_variants(specs, tier, n_small, extra=None):
    """The same shard body in child interpreters started with other flags / environment variables."""
    from vlib.runner import INTERPRETERS
    base = dict(extra or {})
    for name in INTERPRETERS:
        s = dict(base, n=n_small if tier == "quick" else n_small * 6, interp=name)
        specs.append(s)
    return specs


def plan(tier, seed):
    if tier == "quick":
        return _with_interpreter_variants([{"n": 800} for _ in range(16)], tier, 100)
    return _with_interpreter_variants([{"n": 8000} for _ in range(16)], tier, 100)


def multiline(ast, r):
    rd = Q.Renderer(r, r.choice([0.3, 0.6, 0.9]))
    saved = Q.BLANKS[:]
    Q.BLANKS[:] = NL_BLANKS
    try:
        return rd.query(ast)
    finally:
        Q.BLANKS[:] = saved


def run_shard(spec, shard):
    from checks import c05

    def body(r):
        g = Q.QGen(r, names=["a", "b", "c", "\u00e9"], strings=["", "a", "'", "\n", "\\"], big_ints=True)
        ast = g.query(min_segs=1, max_segs=3)
        if "filter" not in Q.features(ast):
            ast[2].append(["child", [["filter", g.logical(1, 2)]]])
        cands = []
        text = multiline(ast, r)
        for _ in range(3):
            m, kinds = M.mutant(text, r)
            cands.append((m, "mutant"))
        # injected validity faults (type / name / index errors) keep the text grammatical
        from vlib.ref.evaluate import BUILTINS
        reg = {k: {"params": v["params"], "ret": v["ret"]} for k, v in BUILTINS.items()}
        inj = c05.inject(ast, reg, None, r, Q.QGen(r, registry=BUILTINS))
        if inj:
            cands.append((multiline(inj[0], r), "fault:" + inj[1]))
        big = ["q", "$", ast[2] + [["child", [["index", r.choice([2**53, -(2**53), 2**60])]]]]]
        cands.append((multiline(big, r), "fault:index-range"))
        # string literals that are rejected while being decoded, after an arbitrary mix of quotes and escapes
        quote = r.choice("'\"")
        filler = "".join(r.choice(['"' if quote == "'" else "'", "\\" + quote, "a", "\\n", " ", "\\\\", "\u00e9"]) for _ in range(r.randrange(0, 16)))
        if r.random() < 0.35:
            filler = ('"' if quote == "'" else "'") * r.randrange(1, 24)
        bad = r.choice(["\\uD800", "\\uDC00", "\\uD800\\u0041", "\\u12", "\\u12G4", "\\x", "\x01", "\\uD83D\\uDE0"])
        lit = quote + filler + bad + r.choice(["", "z"]) + quote
        pre = r.choice(["$", "$\n", "$ \n .a\n"])
        cands.append((pre + r.choice(["[%s]", "[?@ == %s]", "[?@.a\n== %s\n]", "[\n%s\n]"]) % lit, "bad-literal"))
        # messages that echo a very long token
        n = r.choice([200, 230, 256, 300, 600])
        long_tok = r.choice(["$[?" + "f" * n + "(@)]", "$[0" + "1" * n + ":]", "$[?@.a == " + "x" * n + "]", "$\n[?\n" + "g" * n + "(1)\n]",
                             "$[?length(@." + "y" * n + ", 1)]", "$[1:0" + "7" * n + "]", "$.a\n.b[?count(" + "z" * n + ")]"])
        cands.append((long_tok, "long-token"))
        for q, origin in cands:
            status, got = lib.compile_(q)
            if status == "ok":
                shard.notes["compiled-not-used"] += 1
                continue
            if not got["jsonpath_error"]:
                shard.notes["non-jsonpath-error-left-to-C13"] += 1
                continue
            case = {"q": q}
            try:
                lib.DEFAULT_ENV.compile(q)
            except Exception as e:  # noqa: BLE001
                tok = getattr(e, "token", None)
                i = getattr(tok, "index", 0) if tok is not None else 0
                cls = type(e).__name__
            nt = isinstance(i, int) and "\n" in q[:max(0, i)]
            shard.case(key=q, nontrivial=nt, classes={origin.split(":")[0], "error:" + cls,
                                                      "lines:" + ("multi" if "\n" in q else "single")},
                       sample={"q": q, "error": cls, "offset": i})
            f = examine(case)
            if f:
                shard.fail(f["bucket"], case, f, size=len(q))

    drive(rng(), spec["n"], spec["seed"], body)
    if spec["shard"] == 0 or spec.get("interp"):
        # the shortest rejected texts: nothing at all, blank space only, a lone character, text ending in a line break
        for q in ["", " ", "\n", "\t", "\r\n", " \n ", "\n\n", "@", ".", "[", "]", "'", "?", "$ ", "$\n", "\n$", " $", "$.", "$[", "$.\n", "$[\n", "$.a\n.", "\n\n$.a b"]:
            case = {"q": q}
            shard.case(key=("short", q), nontrivial=True, classes={"shortest-texts"}, sample={"q": q})
            f = examine(case)
            if f:
                shard.fail(f["bucket"], case, f, size=len(q))


def minimise(case, failure, tier):
    bucket = failure["bucket"]

    def ok(t):
        f = examine({"q": t})
        return f is not None and f["bucket"] == bucket

    t = shrink.shrink_text(case["q"], ok, shrink.Budget(2500))
    c2 = {"q": t}
    return c2, examine(c2) or failure


def signature(case, failure):
    return f"C19:{failure['bucket']}"
