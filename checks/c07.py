"""C07 Index and slice selectors implement RFC 9535 array arithmetic."""
from __future__ import annotations

import itertools

from vlib import lib
from vlib.hyp import drive, st
from vlib.ref import evaluate as ev

PROPERTY = "C07"
RULE = ("cases = (selector, document): an exhaustive grid of array lengths x {omitted, 0, +-1..+-(len+2), "
        "+-(2^53-1)} for index and for each of start/end/step (both spellings of an omitted step), the same "
        "selectors on objects with numeric-looking names, strings and scalars, plus Hypothesis-drawn lengths "
        "<= 60 with arbitrary in-range integers and blank space inside the brackets, and a handful of slices and indices "
        "on arrays of 1000-70000 (thorough: 200000) elements around powers of two; non-trivial = some bound "
        "is negative, beyond the length, omitted, or the step is not 1; distinct by (selector text, document)")
ASSUMPTIONS = ["the reference transcribes the RFC 9535 Normalize/Bounds/iterate pseudo-code",
               "documents are what json.load produces"]
LIM = 2**53 - 1


def grid_values(n):
    vals = [None, 0]
    for k in range(1, n + 3):
        vals += [k, -k]
    vals += [LIM, -LIM]
    return vals


def fmt(x):
    return "" if x is None else str(x)


def slice_text(a, b, c, form, ws=("", "", "", "", "", "")):
    # "[" S [start S] ":" S [end S] [":" [S step]] S "]"
    s = "$[" + ws[0]
    if a is not None:
        s += str(a) + ws[1]
    s += ":" + ws[2]
    if b is not None:
        s += str(b) + ws[3]
    if c is not None:
        s += ":" + ws[4] + str(c)
    elif form == 1:
        s += ":"
    return s + ws[5] + "]"


def plan(tier, seed):
    maxlen = 7 if tier == "quick" else 10
    specs = [{"mode": "grid", "len": n} for n in range(maxlen + 1)]
    specs.append({"mode": "nonarray"})
    big = [1000, 1024, 4096, 8192, 8193, 65536, 70000, 131072, 131073, 140000] if tier == "quick" else \
        [1000, 1023, 1024, 1025, 4095, 4096, 4097, 8191, 8192, 8193, 10000, 16384, 16385, 65535, 65536, 65537, 70000, 131071, 131072, 131073, 200000, 262143, 262144, 262145, 300000, 1048577]
    specs += [{"mode": "big", "len": n} for n in big]
    from vlib.runner import INTERPRETERS
    for name in INTERPRETERS:
        specs.append({"mode": "grid", "len": 3, "interp": name})
        specs.append({"mode": "hyp", "n": 150, "interp": name})
    nh = 4 if tier == "quick" else 16
    per = 750 if tier == "quick" else 10000
    specs += [{"mode": "hyp", "n": per} for _ in range(nh)]
    return specs


def nontrivial(sel, n):
    if sel[0] == "index":
        i = sel[1]
        return i < 0 or i >= n
    a, b, c = sel[1:]
    return (a is None or b is None or c not in (1,) or a < 0 or b < 0 or a > n or b > n)


def examine(case):
    q, sel, doc = case["q"], case["sel"], case["doc"]
    expected = ev.Evaluator().selector(sel, (), doc, doc)
    status, got = lib.find(q, doc)
    if status == "err":
        return {"bucket": f"error:{got['type']}", "what": f"{q} raised {got['type']}: {got['str']}",
                "expected": ev.show_nodes(expected), "observed": got}
    if not ev.same_nodelist(expected, got):
        locs_e = [l for l, _ in expected]
        locs_g = [l for l, _ in got]
        if [l[-1] % max(1, len(doc)) if l and isinstance(l[-1], int) else l for l in locs_g] == \
                [l[-1] for l in locs_e] and locs_g != locs_e:
            b = "location-not-normalised"
        elif not isinstance(doc, list):
            b = "selected-from-non-array"
        else:
            b = "wrong-elements"
        return {"bucket": f"{sel[0]}:{b}", "what": f"{q} on {type(doc).__name__} of length "
                f"{len(doc) if hasattr(doc, '__len__') else '-'}: {b}",
                "expected": ev.show_nodes(expected), "observed": ev.show_nodes(got)}
    return None


def _one(shard, q, sel, doc, extra=()):
    case = {"q": q, "sel": sel, "doc": doc}
    n = len(doc) if isinstance(doc, list) else 0
    nt = nontrivial(sel, n) or not isinstance(doc, list)
    shard.case(key=(q, doc if not isinstance(doc, list) else len(doc)), nontrivial=nt,
               classes=(sel[0],) + tuple(extra), sample=case)
    f = examine(case)
    if f:
        shard.fail(f["bucket"], case, f)


def run_shard(spec, shard):
    if spec["mode"] == "grid":
        n = spec["len"]
        doc = [f"e{i}" for i in range(n)]
        vals = grid_values(n)
        for i in vals:
            if i is not None:
                _one(shard, f"$[{i}]", ["index", i], doc)
        for a, b, c in itertools.product(vals, vals, vals):
            forms = (0, 1) if c is None else (0,)
            for form in forms:
                _one(shard, slice_text(a, b, c, form), ["slice", a, b, c], doc,
                     extra=(("step-omitted",) if c is None else ("step-neg",) if c < 0 else
                            ("step-zero",) if c == 0 else ("step-pos",)))
        shard.exhaustive[f"grid-len-{n}"] = (f"array length {n}: every (start,end,step) and index over "
                                             f"{len(vals)} values each")
    elif spec["mode"] == "big":
        # around typical size thresholds (chunking, copying, caching): a handful of slices and indices per size
        n = spec["len"]
        doc = [float(i) for i in range(n)]
        sels = [["slice", None, None, -1], ["slice", -3, None, None], ["slice", n - 5, None, -1], ["slice", None, None, -(n // 3)],
                ["slice", 5, n - 5, max(1, n // 7)], ["slice", n + 5, 0, -max(1, n // 5)], ["slice", -n - 5, None, n // 2],
                ["slice", None, None, LIM], ["slice", n - 1, n - 4, -1], ["slice", None, 3, None], ["slice", -2, -n - 1, -(n // 2)],
                ["slice", 2, None, n // 2], ["index", -1], ["index", n - 1], ["index", -n], ["index", n], ["index", -n - 1],
                ["index", n // 2]]
        for sel in sels:
            q = f"$[{sel[1]}]" if sel[0] == "index" else slice_text(sel[1], sel[2], sel[3], 0)
            _one(shard, q, sel, doc, extra=("big-array",))
    elif spec["mode"] == "nonarray":
        docs = [{"0": "a", "1": "b", "-1": "c", "2": "d"}, {}, "abcdef", "", 5, 0, 1.5, None, True, False]
        vals = [None, 0, 1, -1, 2, -2, 5]
        for doc in docs:
            for i in vals:
                if i is not None:
                    _one(shard, f"$[{i}]", ["index", i], doc, extra=("non-array",))
            for a, b, c in itertools.product(vals, vals, vals):
                _one(shard, slice_text(a, b, c, 0), ["slice", a, b, c], doc, extra=("non-array",))
        # one level down, mixed siblings
        shard.exhaustive["non-arrays"] = "objects with numeric-looking names, strings and scalars x small bounds"
    else:
        bound = st.one_of(st.none(), st.integers(-70, 70), st.integers(-LIM, LIM),
                          st.sampled_from([LIM, -LIM, LIM - 1, -LIM + 1, 0]))
        blank = st.sampled_from(["", "", "", " ", "\t", "\n", "\r", "  ", " \n\t"])

        def body(x):
            n, kind, a, b, c, i, ws, form = x
            doc = [[k] for k in range(n)]
            if kind == 0:
                if i is None:
                    i = 0
                _one(shard, "$[" + ws[0] + str(i) + ws[5] + "]", ["index", i], doc, extra=("hyp",))
            else:
                _one(shard, slice_text(a, b, c, form, ws), ["slice", a, b, c], doc,
                     extra=("hyp", "blank" if any(ws) else "noblank"))

        drive(st.tuples(st.integers(0, 60), st.integers(0, 3), bound, bound, bound, bound,
                        st.tuples(*[blank] * 6), st.integers(0, 1)), spec["n"], spec["seed"], body)


def minimise(case, failure, tier):
    bucket = failure["bucket"]
    sel = list(case["sel"])
    doc = case["doc"]

    def attempt(sel2, doc2):
        if sel2[0] == "index":
            q = f"$[{sel2[1]}]"
        else:
            q = slice_text(sel2[1], sel2[2], sel2[3], 0)
        c2 = {"q": q, "sel": sel2, "doc": doc2}
        f2 = examine(c2)
        return (c2, f2) if f2 and f2["bucket"] == bucket else None

    def size(c):
        d = c["doc"]
        return (len(d) if isinstance(d, (list, dict)) else 0,
                sum(abs(v) for v in c["sel"][1:] if isinstance(v, int)),
                sum(1 for v in c["sel"][1:] if v is not None))

    best = attempt(sel, doc) or (case, failure)
    changed = True
    budget = 400            # predicate evaluations; a 10^5-element document must not be shrunk one element at a time
    while changed and budget > 0:
        changed = False
        csel, cdoc = best[0]["sel"], best[0]["doc"]
        cands = []
        if isinstance(cdoc, list) and cdoc:
            if len(cdoc) > 16:
                cands.append((csel, cdoc[: len(cdoc) // 2]))
                cands.append((csel, cdoc[: len(cdoc) - len(cdoc) // 8]))
                cands.append((csel, cdoc[: len(cdoc) - len(cdoc) // 64 - 1]))
            cands.append((csel, cdoc[:-1]))
        for k in range(1, len(csel)):
            v = csel[k]
            if isinstance(v, int) and v != 0:
                for v2 in (0, v // 2 if v > 0 else -((-v) // 2), v - 1 if v > 0 else v + 1):
                    s2 = list(csel)
                    s2[k] = v2
                    cands.append((s2, cdoc))
            if v is not None and csel[0] == "slice":
                s2 = list(csel)
                s2[k] = None
                cands.append((s2, cdoc))
        for s2, d2 in cands:
            budget -= 40 if isinstance(d2, list) and len(d2) > 20000 else 1
            if budget <= 0:
                break
            r = attempt(s2, d2)
            if r and size(r[0]) < size(best[0]):
                best = r
                changed = True
                break
    return best


def signature(case, failure):
    return f"C07:{failure['bucket']}"

TECHNIQUE = "exhaustive grid enumeration + Hypothesis property-based testing, differential against the RFC pseudo-code"
LEVEL_TEXT = ("Every (start,end,step)/index over {omitted,0,+-1..+-(len+2),+-(2^53-1)} for array lengths 0-7 (quick) "
              "or 0-10 (thorough) is enumerated completely and compared with the RFC's Normalize/Bounds/iterate "
              "procedure, including locations; larger lengths, arbitrary integers and blank space are sampled with "
              "Hypothesis. Exhaustive for the grid, sampled beyond it; no absence claim outside.")
LEVEL_NOTE = "Trusted: vlib/ref/evaluate.py slice_indices (a verbatim transcription of RFC 9535 2.3.4.2.2), checked against the RFC's own slice examples in the self-test."
