"""C08 Nodes carry exact locations and canonical, re-queryable normalized paths."""
from __future__ import annotations

from vlib import diff, lib
from vlib.gen import queries as Q
from vlib.gen import values as V
from vlib.hyp import drive, rng
from vlib.ref import normpath
from vlib.runner import h64

PROPERTY = "C08"
RULE = ("cases = nodes returned by generated queries (negative indices and reverse slices forced often, filters "
        "included) on values whose member names come from a nasty pool (empty, quotes, backslash, every control "
        "character, DEL, U+0080, U+D7FF, U+E000, U+FFFF, non-BMP, index look-alikes) plus an exhaustive sweep with "
        "one member per code point (quick: U+0000-U+02FF, range edges and a stride; thorough: all 1,112,064 "
        "scalar values); oracle per node: following location from the root reaches the very object in value; "
        "path() equals the reference rendering and is in the normalized-path grammar; find(path(), value) returns "
        "exactly one node with the same location and the identical value; values()/paths()/items() agree with the "
        "nodes; non-trivial = the location contains a name that needs escaping or is non-ASCII, or the query used "
        "a negative index or a reverse slice; distinct by (document, location)")
ASSUMPTIONS = ["vlib/ref/normpath.py transcribes RFC 9535 2.7 (renderer and strict recogniser)"]
TECHNIQUE = "Hypothesis property-based testing + exhaustive code-point sweep; round-trip and reference-renderer oracle"
LEVEL_TEXT = ("Every node of every generated result is checked for identity along its location, for its path() "
              "against an independent normalized-path renderer/recogniser, and for the path round trip; member "
              "names sweep every Unicode scalar value in the thorough tier (exhaustive for single-character names).")
LEVEL_NOTE = "Trusted: vlib/ref/normpath.py; identity is checked by walking the location with plain Python indexing."


def check_nodes(nodelist, doc, want_classes=None, requery=True):
    """Return a failure dict or None for a JSONPathNodeList."""
    try:
        vals, paths, items = nodelist.values(), nodelist.paths(), nodelist.items()
    except Exception as e:  # noqa: BLE001
        return fail(f"helpers:raised:{type(e).__name__}", f"values()/paths()/items() raised {type(e).__name__}: {str(e)[:80]}", None, repr(e)[:200])
    if len(vals) != len(nodelist) or len(paths) != len(nodelist) or len(items) != len(nodelist):
        return fail("helpers:length", "values()/paths()/items() lengths differ from the nodelist", None, None)
    for i, node in enumerate(nodelist):
        loc = tuple(node.location)
        # 1. location leads to the very object
        cur = doc
        try:
            for k in loc:
                if isinstance(k, bool) or not isinstance(k, (int, str)):
                    return fail("location:type", f"location element {k!r} is neither int nor str", loc, None)
                if isinstance(cur, list):
                    if not isinstance(k, int) or k < 0:
                        return fail("location:not-normalised", f"location {loc!r} has a non-normalised index", loc, None)
                    cur = cur[k]
                elif isinstance(cur, dict):
                    if not isinstance(k, str):
                        return fail("location:type", f"location {loc!r} indexes an object with {k!r}", loc, None)
                    cur = cur[k]
                else:
                    return fail("location:dangling", f"location {loc!r} walks into a scalar", loc, None)
        except (KeyError, IndexError):
            return fail("location:dangling", f"location {loc!r} does not exist in the value", loc, None)
        if cur is not node.value:
            return fail("location:identity", f"location {loc!r} does not reach the object held in node.value", loc, None)
        # 2. canonical path
        expected = normpath.render(loc)
        try:
            p = node.path()
        except Exception as e:  # noqa: BLE001
            return fail("path:raised", f"path() raised {type(e).__name__}", loc, repr(e))
        if p != expected:
            return fail("path:not-canonical", f"path() is {p!r}, the normalized path is {expected!r}", expected, p)
        if normpath.recognise(p) != loc:
            return fail("path:grammar", f"path() {p!r} is not a normalized path for {loc!r}", loc, p)
        # 3. re-query (not for locations of hundreds of steps: a query of that many segments is beyond what the
        # evaluator's generator pipeline can run, which is a resource limit and not this property's subject)
        if not requery or len(loc) > 300:
            if vals[i] is not node.value or paths[i] != p or items[i][0] != p or items[i][1] is not node.value:
                return fail("helpers:disagree", "values()/paths()/items() disagree with the node", list(loc)[:6], None)
            continue
        st, got = lib.compile_(p)
        if st != "ok":
            return fail("requery:refused", f"path() {p!r} does not compile: {got['type']}: {got['str']}", loc, got)
        try:
            back = got.find(doc)
        except Exception as e:  # noqa: BLE001
            return fail("requery:raised", f"find({p!r}) raised {type(e).__name__}", loc, repr(e))
        if len(back) != 1 or tuple(back[0].location) != loc or back[0].value is not node.value:
            return fail("requery:different", f"find({p!r}) does not return exactly that node "
                        f"(got {[tuple(b.location) for b in back][:4]})", [list(loc)], [list(b.location) for b in back][:4])
        # 4. helpers
        if vals[i] is not node.value or paths[i] != p or items[i][0] != p or items[i][1] is not node.value:
            return fail("helpers:disagree", "values()/paths()/items() disagree with the node", loc, None)
    return None


def helpers_agree(nodes, when):
    vals, paths, items = nodes.values(), nodes.paths(), nodes.items()
    want_paths = [normpath.render(tuple(n.location)) for n in nodes]
    if len(vals) != len(nodes) or any(v is not n.value for v, n in zip(vals, nodes)):
        return fail("helpers:stale-values", f"values() disagrees with the nodes {when}", None, None)
    if paths != want_paths:
        return fail("helpers:stale-paths", f"paths() disagrees with the nodes {when}", want_paths[:4], paths[:4])
    if [p for p, _ in items] != want_paths or any(v is not n.value for (_, v), n in zip(items, nodes)):
        return fail("helpers:stale-items", f"items() disagrees with the nodes {when}", want_paths[:4], [p for p, _ in items][:4])
    return None


def fail(bucket, what, expected, observed):
    return {"bucket": bucket, "what": what, "expected": expected, "observed": observed}


def needs_escape(name):
    return any(c in "'\\" or ord(c) < 0x20 or ord(c) > 0x7E for c in name) or name == ""


def deep_doc(depth, shape):
    leaf = {"leaf": True, "x": 1}
    v = leaf
    for i in range(depth):
        k = shape if shape != "mix" else ("arr" if i % 2 else "obj")
        v = [0, v] if k == "arr" else {"k": v, "a'b": 0}
    return v


def examine_deep(case):
    """Nodes hundreds or thousands of levels down (an environment whose max_recursion_depth allows it): location,
    path(), paths(), items(), values() - whatever order they are asked in."""
    with lib.host_stack():
        return _examine_deep(case)


def _examine_deep(case):
    doc = deep_doc(case["depth"], case["shape"])
    env = lib.make_env(max_recursion_depth=100000)
    st, cq = lib.compile_(case["q"], env)
    if st != "ok":
        return fail(f"compile:{cq['type']}", f"{case['q']!r} does not compile", None, cq)
    try:
        nodes = cq.find(doc)
    except Exception as e:  # noqa: BLE001
        return fail(f"find-raised:{type(e).__name__}", f"find({case['q']!r}) on a value nested {case['depth']} levels raised {type(e).__name__}", None, repr(e)[:200])
    if case.get("order") == "helpers-first":
        try:
            nodes.paths(), nodes.items()
        except Exception as e:  # noqa: BLE001
            return fail(f"helpers:raised:{type(e).__name__}", f"paths()/items() of nodes {case['depth']} levels down raised {type(e).__name__}", None, repr(e)[:200])
    elif case.get("order") == "deepest-first":
        try:
            for n in reversed(nodes):
                n.location, n.path()
        except Exception as e:  # noqa: BLE001
            return fail(f"path:raised:{type(e).__name__}", f"location/path() of a node {case['depth']} levels down raised {type(e).__name__}", None, repr(e)[:200])
    f = check_nodes(nodes, doc, requery=False)
    if f:
        f["what"] = f"value nested {case['depth']} levels ({case['shape']}), {case['q']}: " + f["what"]
        f["expected"] = f["observed"] = None
    return f


def examine(case):
    if case.get("kind") == "deep":
        return examine_deep(case)
    doc = case["doc"]
    if case.get("kind") == "sweep":
        doc = {chr(c): [c] for c in range(case["lo"], case["hi"]) if not 0xD800 <= c <= 0xDFFF}
        q = "$.*"
    else:
        q = case["q"]
    st, cq = lib.compile_(q)
    if st != "ok":
        return fail(f"compile:{cq['type']}", f"{q!r} does not compile: {cq['str']}", None, cq)
    try:
        nodes = cq.find(doc)
    except Exception as e:  # noqa: BLE001
        return fail(f"find-raised:{type(e).__name__}", f"find({q!r}) raised {type(e).__name__}: {e}", None, repr(e))
    f = check_nodes(nodes, doc)
    if f is None and case.get("scalar_root"):
        want = 1 if q == "$" else 0
        if len(nodes) != want:
            f = fail("scalar-root:node-count", f"find({q!r}) on the scalar {doc!r:.80} gives {len(nodes)} nodes; a scalar has no children",
                     want, len(nodes))
    if f is None and len(nodes) >= 2:
        # a nodelist is a list: after the caller reorders it in place the helpers must follow the nodes
        nodes.paths(), nodes.items(), nodes.values()
        nodes.reverse()
        f = helpers_agree(nodes, "after reverse()")
        if f is None:
            nodes[0], nodes[-1] = nodes[-1], nodes[0]
            nodes.sort(key=lambda n: repr(n.location))
            f = helpers_agree(nodes, "after sort()")
        if f is None:
            nodes.pop()
            f = helpers_agree(nodes, "after pop()")
    if f and case.get("kind") == "sweep":
        f["what"] = f"member-name sweep U+{case['lo']:04X}-U+{case['hi'] - 1:04X}: " + f["what"]
    return f


def sweep_ranges(tier):
    if tier == "thorough":
        return [(lo, min(lo + 4096, 0x110000)) for lo in range(0, 0x110000, 4096)]
    out = [(0, 0x300), (0xD7F0, 0xE010), (0xFFF0, 0x10010), (0x1F600, 0x1F610), (0x10FFF0, 0x110000)]
    out += [(lo, lo + 4) for lo in range(0x300, 0x110000, 0x1357)]
    return out


def plan(tier, seed):
    ranges = sweep_ranges(tier)
    k = 16
    specs = [{"mode": "sweep", "ranges": ranges[i::k]} for i in range(k)]
    if tier == "quick":
        specs += [{"mode": "hyp", "n": 250} for _ in range(16)]
    else:
        specs += [{"mode": "hyp", "n": 6000} for _ in range(16)]
    specs.append({"mode": "deep"})
    return specs


def run_shard(spec, shard):
    tier = spec["tier"]
    if spec["mode"] == "sweep":
        for lo, hi in spec["ranges"]:
            case = {"kind": "sweep", "lo": lo, "hi": hi, "doc": None}
            n = sum(1 for c in range(lo, hi) if not 0xD800 <= c <= 0xDFFF)
            nt = sum(1 for c in range(lo, hi) if not 0xD800 <= c <= 0xDFFF and needs_escape(chr(c)))
            shard.evaluations += n
            shard.nontrivial_by_construction += nt
            shard.classes["sweep-names"] += n
            f = examine(case)
            if f:
                shard.fail(f["bucket"], case, f, size=hi - lo)
        if tier == "thorough":
            shard.exhaustive["single-character-member-names"] = "every Unicode scalar value U+0000-U+10FFFF as a member name"
        else:
            shard.exhaustive["single-character-member-names-quick"] = "U+0000-U+02FF, range edges and a stride of 0x1357"
        return

    if spec["mode"] == "deep":
        for depth in (300, 1100, 3000):
            for shape in ("obj", "arr", "mix"):
                for q in ("$..leaf", "$..[?@.leaf == true]", "$..x"):
                    for order in ("plain", "helpers-first", "deepest-first"):
                        case = {"kind": "deep", "depth": depth, "shape": shape, "q": q, "order": order}
                        shard.case(key=("deep", depth, shape, q, order), nontrivial=True, classes={"deep-location"}, sample=case)
                        f = examine(case)
                        if f:
                            shard.fail(f["bucket"], case, f)
        return

    def body(r):
        names = [r.choice(V.NASTY_NAMES) for _ in range(4)] + ["a", "b"]
        doc = diff.make_doc(r, tier, names=names, falsy_bias=0.1)
        ast, text, used = diff.make_query(r, shard, filters=r.random() < 0.4, names=names, min_segs=1, max_segs=4,
                                          doc=doc, hit_p=0.9)
        feats = Q.features(ast)
        case = {"q": text, "doc": doc}
        st, cq = lib.compile_(text)
        nres = 0
        nt_nodes = 0
        if st == "ok":
            try:
                nodes = cq.find(doc)
                nres = len(nodes)
                for nd in nodes:
                    esc = any(isinstance(k, str) and needs_escape(k) for k in nd.location)
                    if esc or "negative-index" in feats or "reverse-slice" in feats:
                        nt_nodes += 1
                        shard.nontrivial.add(h64((text, doc, list(nd.location))))
            except Exception:  # noqa: BLE001 - reported by examine
                pass
        shard.case(key=None, nontrivial=False, n=max(1, nres),
                   classes=({"has-nontrivial-node"} if nt_nodes else set())
                   | {f for f in feats if f in ("negative-index", "reverse-slice", "filter", "descendant")},
                   sample=None)
        if nt_nodes and len(shard.samples) < 12:
            shard.samples.append({"q": text, "doc": doc, "nodes": nres})
        f = examine(case)
        if f:
            shard.fail(f["bucket"], case, f)
        if r.random() < 0.06:
            # the query argument is a scalar - in particular a string that happens to hold JSON text, which is a JSON
            # string like any other: '$' is its only node
            import json
            root = r.choice([json.dumps(doc), json.dumps(doc, indent=1), " " + json.dumps(doc), json.dumps([doc]), "[1, 2]", '{"a": 1}',
                             '"a"', "$.a", "", "0", 0, None, True, 1.5, -0.0])
            for q2 in ("$", text, "$.*", "$..*", "$[0]", "$[?@]"):
                c2 = {"q": q2, "doc": root, "scalar_root": True}
                shard.case(key=("scalar-root", q2, repr(root)), nontrivial=isinstance(root, str) and root[:1] in "[{ \"",
                           classes={"scalar-root", "root:" + type(root).__name__}, sample={"q": q2, "doc": root if not isinstance(root, str) else root[:80]})
                f = examine(c2)
                if f:
                    shard.fail(f["bucket"], c2, f)

    drive(rng(), spec["n"], spec["seed"], body)


def minimise(case, failure, tier):
    if case.get("kind") == "deep":
        return case, failure
    if case.get("kind") == "sweep":
        lo, hi = case["lo"], case["hi"]
        bucket = failure["bucket"]
        while hi - lo > 1:
            mid = (lo + hi) // 2
            f = examine(dict(case, lo=lo, hi=mid))
            if f and f["bucket"] == bucket:
                hi = mid
            else:
                f2 = examine(dict(case, lo=mid, hi=hi))
                if f2 and f2["bucket"] == bucket:
                    lo = mid
                else:
                    break
        c2 = dict(case, lo=lo, hi=hi)
        return c2, examine(c2) or failure
    from vlib import shrink
    bucket = failure["bucket"]

    def ok(d):
        f = examine(dict(case, doc=d))
        return f is not None and f["bucket"] == bucket

    d = shrink.shrink_json(case["doc"], ok, shrink.Budget(800))
    c2 = dict(case, doc=d)

    def tok(t):
        f = examine(dict(c2, q=t))
        return f is not None and f["bucket"] == bucket

    t = shrink.shrink_text(c2["q"], tok, shrink.Budget(1500))
    c2 = dict(c2, q=t)
    return c2, examine(c2) or failure


def signature(case, failure):
    if case.get("kind") == "sweep":
        return f"C08:{failure['bucket']}:sweep"
    return f"C08:{failure['bucket']}"
