"""C20 The command-line tool is a faithful, well-behaved front end to find()."""
from __future__ import annotations

import contextlib
import io
import json
import os
import shutil
import subprocess
import sys
import tempfile

from vlib import diff, lib
from vlib.gen import mutate as M
from vlib.gen import values as V
from vlib.hyp import drive, rng

PROPERTY = "C20"
RULE = ("cases = (query, document, options): options from {inline --query=, query file} x {document file, standard "
        "input} x {standard output, output file} x {--pretty} x {--debug}; queries valid and of every error class "
        "(syntax, type, name, index), evaluation-time errors (descendant segments over documents nested beyond the "
        "recursion limit); documents incl. non-ASCII, every scalar kind as root, deep, invalid JSON and invalid UTF-8; "
        "oracle: on success exit 0 and the output parses to exactly find(query, document).values() (type-strict); on "
        "any error a non-zero exit, exactly one line on standard error, no traceback unless --debug, nothing on "
        "standard output and an empty output file; bulk cases call cli.main() in-process with argv/streams replaced "
        "(an exception escaping main() is what the interpreter would print as a traceback), a sample of each outcome "
        "class is re-run as `python -m jsonpath_rfc9535` in a subprocess and must agree; non-trivial = a non-empty "
        "result or an error; distinct by (query, document, options)")
ASSUMPTIONS = ["the library's own find() is the oracle for the values (the property is about the front end)",
               "the query-file form is used only for queries equal to their own strip() (the CLI strips the file content)"]
TECHNIQUE = "Hypothesis property-based testing of the CLI in-process and as a subprocess; differential against the library API plus error-path invariants"
LEVEL_TEXT = ("Generated (query, document, option) combinations through cli.main() in-process, with a subprocess "
              "cross-check per outcome class; success output must equal find().values(), every failure must be a "
              "one-line diagnostic with a non-zero exit and no partial output. Sampled.")
LEVEL_NOTE = "Trusted: json round trip and the stream capture in this module."

ERR_QUERIES = ["$[", "$.a.", "$[?@.a==]", "$[?length(@)]", "$[?count(1)>0]", "$[?nope(@)]", "$[9007199254740992]",
               "$[1:2:9007199254740993]", "", "a", "$[?@.a==@.*]", "$['\\q']", "$[?match(@.a)]", "$..", "$[?!!@]"]
DEEP_QUERIES = ["$..a", "$..*", "$..[0]", "$.a..b"]


def deep_json(n):
    return "[" * n + "1" + "]" * n


def run_inprocess(case, tmp):
    """Return dict(exit, stdout, stderr, outfile, escaped)."""
    from jsonpath_rfc9535 import cli

    o = case["opts"]
    argv = ["jsonpath-rfc9535"]
    if o.get("debug"):
        argv.append("--debug")
    if o.get("pretty"):
        argv.append("--pretty")
    if o.get("query_file"):
        qp = os.path.join(tmp, "query.txt")
        with open(qp, "wb") as f:
            f.write(bytes.fromhex(case["q_hex"]) if "q_hex" in case else
                    (case.get("qpre", "") + case["q"] + case.get("qpost", "")).encode("utf-8"))
        argv += ["-r", qp]
    else:
        argv.append("--query=" + case["q"])
    data = doc_bytes(case)
    if o.get("doc_file"):
        dp = os.path.join(tmp, "doc.json")
        with open(dp, "wb") as f:
            f.write(data)
        argv += ["-f", dp]
        stdin = io.StringIO("")
    else:
        # sys.stdin as the interpreter sets it up: UTF-8 normally, the locale's encoding with surrogateescape on a
        # host whose locale is not UTF-8
        stdin = (io.TextIOWrapper(io.BytesIO(data), encoding="ascii", errors="surrogateescape") if o.get("posix_locale")
                 else io.TextIOWrapper(io.BytesIO(data), encoding="utf-8"))
    op = None
    if o.get("out_file"):
        op = os.path.join(tmp, "out.json")
        if os.path.exists(op):
            os.unlink(op)
        if o.get("stale_output"):
            # the output file already exists and holds something longer than any result here
            with open(op, "w", encoding="utf-8") as f:
                f.write(STALE)
        argv += ["-o", op]
    out, err = io.StringIO(), io.StringIO()
    saved = (sys.argv, sys.stdin, sys.stdout, sys.stderr)
    res = {"exit": 0, "escaped": None}
    sys.argv, sys.stdin, sys.stdout, sys.stderr = argv, stdin, out, err
    try:
        try:
            rv = cli.main()
            # the installed console script is `sys.exit(main())`: whatever main() returns becomes the exit status
            if rv is not None and rv != 0:
                res["exit"] = rv if isinstance(rv, int) else 1
        except SystemExit as e:
            res["exit"] = e.code if isinstance(e.code, int) else (0 if e.code is None else 1)
        except BaseException as e:  # noqa: BLE001
            res["escaped"] = type(e).__name__
            res["exit"] = 1
    finally:
        sys.argv, sys.stdin, sys.stdout, sys.stderr = saved
        import gc
        gc.collect()  # argparse FileType handles are closed by the garbage collector
    res["stdout"] = out.getvalue()
    res["stderr"] = err.getvalue()
    res["outfile"] = None
    if op is not None and os.path.exists(op):
        with open(op, encoding="utf-8") as f:
            res["outfile"] = f.read()
    return res


STALE = "[" + ", ".join(['"stale output %d"' % i for i in range(400)]) + "]\n" * 3


def run_subprocess(case, tmp):
    o = case["opts"]
    if o.get("launcher"):
        # the console-script launcher pip generates for [project.scripts] jsonpath-rfc9535 = "jsonpath_rfc9535.cli:main"
        argv = [sys.executable, "-X", "utf8", "-c",
                "import sys; from jsonpath_rfc9535.cli import main; sys.argv[0] = 'jsonpath-rfc9535'; sys.exit(main())"]
    else:
        argv = [sys.executable, "-X", "utf8", "-m", "jsonpath_rfc9535"]
    if o.get("debug"):
        argv.append("--debug")
    if o.get("pretty"):
        argv.append("--pretty")
    if o.get("query_file"):
        qp = os.path.join(tmp, "squery.txt")
        with open(qp, "wb") as f:
            f.write(bytes.fromhex(case["q_hex"]) if "q_hex" in case else
                    (case.get("qpre", "") + case["q"] + case.get("qpost", "")).encode("utf-8"))
        argv += ["-r", qp]
    else:
        argv.append("--query=" + case["q"])
    data = doc_bytes(case)
    stdin = data
    if o.get("doc_file"):
        dp = os.path.join(tmp, "sdoc.json")
        with open(dp, "wb") as f:
            f.write(data)
        argv += ["-f", dp]
        stdin = b""
    op = None
    if o.get("out_file"):
        op = os.path.join(tmp, "sout.json")
        if os.path.exists(op):
            os.unlink(op)
        if o.get("stale_output"):
            with open(op, "w", encoding="utf-8") as f:
                f.write(STALE)
        argv += ["-o", op]
    env = None
    if o.get("posix_locale"):
        # a host whose locale is not UTF-8 (here: the C locale with Python's UTF-8 mode and locale coercion off);
        # JSON documents are UTF-8 all the same (RFC 8259 8.1)
        argv = [a for a in argv if a not in ("-X", "utf8")]
        env = dict(os.environ, LC_ALL="C", LANG="C", PYTHONUTF8="0", PYTHONCOERCECLOCALE="0")
        env.pop("PYTHONIOENCODING", None)
    p = subprocess.run(argv, input=stdin, capture_output=True, timeout=120, env=env)
    res = {"exit": p.returncode, "stdout": p.stdout.decode("utf-8", "replace"), "stderr": p.stderr.decode("utf-8", "replace"),
           "escaped": "Traceback" if b"Traceback (most recent call last)" in p.stderr else None, "outfile": None}
    if op is not None and os.path.exists(op):
        with open(op, encoding="utf-8") as f:
            res["outfile"] = f.read()
    return res


def doc_bytes(case):
    if "doc_hex" in case:
        return bytes.fromhex(case["doc_hex"])
    if "deep" in case:
        return deep_json(case["deep"]).encode()
    if "doc_text" in case:
        return case["doc_text"].encode("utf-8")
    return json.dumps(case["doc"], ensure_ascii=case.get("ascii", True)).encode("utf-8")


def expected_of(case):
    """("ok", values) or ("error", class)."""
    import jsonpath_rfc9535 as jp

    q = case["q"]   # a query file may add JSONPath blank space around it (qpre/qpost); nothing else is insignificant
    if "q_hex" in case:
        return "error", "query:file-not-decodable"   # bytes that are not text at all are not a query
    try:
        cq = jp.JSONPathEnvironment().compile(q)
    except RecursionError:
        return "error", "query:too-deep-to-parse"
    except Exception as e:  # noqa: BLE001
        return "error", "query:" + type(e).__name__
    try:
        data = doc_bytes(case)
        # the document is JSON text in bytes, from a file or from standard input alike (json's own detection of
        # UTF-8/16/32 applies); the locale has no say in it
        doc = json.loads(data)
    except UnicodeDecodeError:
        return "error", "document:undecodable"
    except RecursionError:
        return "error", "document:too-deep-for-json"
    except ValueError:
        return "error", "document:invalid-json"   # includes integers beyond the interpreter's digit limit
    try:
        values = cq.find(doc).values()
    except Exception as e:  # noqa: BLE001
        return "error", "evaluation:" + type(e).__name__
    try:
        json.dumps(values, indent=2 if case["opts"].get("pretty") else None)
    except RecursionError:
        return "error", "output:too-deep-to-serialise"
    return "ok", values


def judge(case, res, how):
    exp, detail = expected_of(case)
    o = case["opts"]
    opts = "+".join(k for k in ("query_file", "doc_file", "out_file", "pretty", "debug", "stale_output", "launcher") if o.get(k)) or "plain"
    q = case["q"]
    if exp == "ok":
        if res["exit"] != 0 or res["escaped"]:
            return fail(f"success-failed:{res['escaped'] or 'exit'}:{how}", f"CLI [{opts}] on {q!r} exited {res['exit']} "
                        f"({res['escaped'] or res['stderr'][:120]!r}) although find() succeeds", "exit 0", res["exit"])
        text = res["outfile"] if o.get("out_file") else res["stdout"]
        if text is None:
            return fail(f"no-output:{how}", f"CLI [{opts}] on {q!r} wrote no output file", "a JSON array", None)
        try:
            got = json.loads(text)
        except ValueError:
            return fail(f"output-not-json:{how}", f"CLI [{opts}] on {q!r} wrote {text[:80]!r}", "a JSON array", text[:200])
        if not V.strict_equal(got, detail):
            return fail(f"output-differs:{how}", f"CLI [{opts}] on {q!r} wrote {text[:120]!r}, find().values() is "
                        f"{json.dumps(detail)[:120]}", json.dumps(detail)[:300], text[:300])
        if o.get("out_file") and res["stdout"]:
            return fail(f"stray-stdout:{how}", f"CLI [{opts}] wrote to standard output although -o was given", "", res["stdout"][:100])
        if o.get("pretty") and len(detail) > 0 and "\n" not in text:
            return fail(f"pretty-ignored:{how}", f"CLI [{opts}] --pretty produced no line breaks", None, text[:100])
        return None
    # error expected
    klass = detail.split(":")[0]
    if res["exit"] == 0 and not res["escaped"]:
        return fail(f"error-exit-zero:{klass}:{how}", f"CLI [{opts}] on {q!r} exited 0 although {detail}", "non-zero exit", 0)
    if o.get("debug"):
        return None  # a traceback is allowed with --debug
    if res["escaped"]:
        return fail(f"traceback:{detail}:{how}", f"CLI [{opts}] on {q!r}: {detail} ends in a traceback ({res['escaped']}) without --debug",
                    "a one-line diagnostic", res["escaped"])
    err = res["stderr"]
    if not err.endswith("\n") or err.count("\n") != 1 or "Traceback" in err:
        return fail(f"diagnostic-not-one-line:{klass}:{how}", f"CLI [{opts}] on {q!r}: {detail}: standard error is {err[:200]!r}",
                    "exactly one line", err[:300])
    if res["stdout"]:
        return fail(f"partial-stdout:{klass}:{how}", f"CLI [{opts}] on {q!r}: {detail} but standard output has {res['stdout'][:80]!r}", "", res["stdout"][:100])
    if o.get("out_file") and res["outfile"]:
        return fail(f"partial-outfile:{klass}:{how}", f"CLI [{opts}] on {q!r}: {detail} but the output file has {res['outfile'][:80]!r}", "", res["outfile"][:100])
    return None


def fail(bucket, what, expected, observed):
    return {"bucket": bucket, "what": what, "expected": expected, "observed": observed}


class default_recursion_limit:
    """The harness raises the interpreter's recursion limit for its own parsers; the CLI must be observed under
    the interpreter default, as a real invocation would run."""

    def __enter__(self):
        self.saved = sys.getrecursionlimit()
        sys.setrecursionlimit(1000)

    def __exit__(self, *a):
        sys.setrecursionlimit(self.saved)


def examine(case):
    with default_recursion_limit():
        return _examine(case)


def _examine(case):
    tmp = tempfile.mkdtemp(prefix="c20.", dir="/tmp")
    try:
        if case.get("subprocess"):
            res = run_subprocess(case, tmp)
            f = judge(case, res, "subprocess")
            if f:
                return f
        res = run_inprocess(case, tmp)
        return judge(case, res, "in-process")
    finally:
        shutil.rmtree(tmp, ignore_errors=True)


def plan(tier, seed):
    if tier == "quick":
        return [{"n": 250, "sub": 6} for _ in range(16)]
    return [{"n": 3000, "sub": 38} for _ in range(16)]


def run_shard(spec, shard):
    tier = spec["tier"]
    seen_classes = {}

    def body(r):
        opts = {k: r.random() < p for k, p in (("query_file", 0.3), ("doc_file", 0.5), ("out_file", 0.4), ("pretty", 0.3), ("debug", 0.15),
                                               ("stale_output", 0.4), ("launcher", 0.5))}
        k = r.random()
        case = {"opts": opts}
        if k < 0.5:
            doc = diff.make_doc(r, "quick", names=["a", "b", "\u00e9", "\U0001F600", "a  b", "a b", "\u00a0", "x\ty", " lead", "trail "],
                                strings=["", "a", "\u00e9", "\U0001F600", "\n", "a  b", "\u2003", "  "], falsy_bias=0.2)
            ast, text, _ = diff.make_query(r, shard, filters=True, doc=doc, max_segs=3)
            case.update(q=text, doc=doc, ascii=r.random() < 0.5)
        elif k < 0.6:
            case.update(q=r.choice(["$", "$.a", "$[0]", "$[?@]", "$..*"]), doc=r.choice([1, "x", None, True, 1.5, [], {}, -0.0, 1e100, "\u00e9"]))
        elif k < 0.75:
            doc = diff.make_doc(r, "quick")
            q = r.choice(ERR_QUERIES) if r.random() < 0.6 else M.mutant(diff.make_query(r, shard, doc=doc)[1], r)[0]
            case.update(q=q, doc=doc)
        elif k < 0.78:
            # names and queries ending in white space that is *not* JSONPath blank space
            ws = r.choice(["\u3000", "\u00a0", "\u2003", "\u2028", "\x0b", "\x0c", "\x1f", "\x85"])
            name = "a" + ws
            if ord(ws) < 0x20:
                case.update(q="$.a" + ws, doc={"a": 1})          # a control character: not a valid query
            else:
                case.update(q="$.a" + ws, doc={"a": 1, name: 2})  # a name character: selects the other member
        elif k < 0.79:
            case.update(q=r.choice(["$", "$.a", "$..a"]), doc_text='{"a": %s, "b": [1]}' % ("7" * r.choice([4300, 4301, 5000])))
        elif k < 0.8:
            # number literals that overflow a double are grammatical JSON; so are queries of thousands of segments
            if r.random() < 0.5:
                case.update(q=r.choice(["$", "$.a", "$.b[*]", "$[?@ > 1]", "$..*"]), doc_text=r.choice(['{"a": 1e400, "b": [1, 2.5]}', '{"a": [-1e999, 1e999], "b": [0]}', "[1e400]"]))
            else:
                n = r.choice([400, 1500, 3000])
                case.update(q="$" + r.choice(["[0]", ".a", "[*]"]) * n, doc=r.choice([[[1]], {"a": {"a": 1}}, [1, 2]]))
        elif k < 0.82:
            d = r.choice([200, 400, 3000])
            case.update(q="$[?" + "(" * d + "@.a" + ")" * d + "]", doc=[{"a": 1}, {}])
        elif k < 0.88:
            case.update(q=r.choice(DEEP_QUERIES + ["$[0]", "$"]), deep=r.choice([50, 99, 100, 101, 150, 600, 1250, 1250, 3000]))
        elif k < 0.93:
            case.update(q=r.choice(["$", "$.a", "$[?@.a]"]), doc_text=r.choice(["", "{", "[1,", "{\"a\":}", "nul", "[1] x", "'a'", "{\"a\": NaN}x"]))
        elif k < 0.97:
            case.update(q=r.choice(["$", "$..a"]), doc_hex=r.choice(["ff", "5b22c3285d", "c0af", "80", "e28228", "f0288cbc"]))
        else:
            # a query file holding bytes that are not UTF-8 text
            hx = r.choice(["245b22ff225d", "24ff", "ff", "242e61c0af", "245b27e2822827 5d".replace(" ", ""), "f0288cbc", "24" + "80"])
            case.update(q="<bytes " + hx + ">", q_hex=hx, doc={"a": 1})
            opts["query_file"] = True
        if "q_hex" not in case and opts["query_file"] and case["q"] != case["q"].strip(" \t\r\n"):
            opts["query_file"] = False
        if opts["query_file"]:
            case["qpre"] = r.choice(["", "", " ", "\n", "\t"])
            case["qpost"] = r.choice(["", "\n", "\r\n", " \n", "\n\n"])
        if opts["query_file"] and any(ord(c) > 0x7F for c in case["q"]) and False:
            opts["query_file"] = False
        if r.random() < 0.3 and all(ord(c) < 0x80 for c in case["q"]) and "q_hex" not in case:
            opts["posix_locale"] = True     # only meaningful for subprocess runs; the query itself stays ASCII
        with default_recursion_limit():
            exp, detail = expected_of(case)
        oc = (exp if exp == "ok" else detail.split(":")[0], tuple(sorted(k for k, v in opts.items() if v)))
        if seen_classes.get(oc[0], 0) < spec["sub"] // 4 + 1:
            seen_classes[oc[0]] = seen_classes.get(oc[0], 0) + 1
            case["subprocess"] = True
        elif opts.get("posix_locale") and seen_classes.get("posix", 0) < spec["sub"]:
            seen_classes["posix"] = seen_classes.get("posix", 0) + 1
            case["subprocess"] = True
        nt = exp == "error" or (exp == "ok" and len(detail) > 0)
        shard.sets["(options,outcome)-pairs"].add(hash(oc) & 0xFFFFFFFFFFFF)
        shard.case(key=(case.get("q"), case.get("doc", case.get("deep", case.get("doc_text", case.get("doc_hex")))), sorted(opts.items())),
                   nontrivial=nt, classes={"outcome:" + oc[0]} | {"opt:" + k for k, v in opts.items() if v}
                   | ({"subprocess"} if case.get("subprocess") else set()),
                   sample={"q": case["q"], "opts": [k for k, v in opts.items() if v], "outcome": exp if exp == "ok" else detail})
        f = examine(case)
        if f:
            shard.fail(f["bucket"], case, f)

    drive(rng(), spec["n"], spec["seed"], body)


def minimise(case, failure, tier):
    return case, failure


def signature(case, failure):
    parts = failure["bucket"].split(":")
    return "C20:" + ":".join(parts[:-1])
