"""C17 Nondeterministic mode only ever produces orderings RFC 9535 allows (and all of them)."""
from __future__ import annotations

import itertools
import random as _random

from vlib import diff, lib, shrink
from vlib.gen import queries as Q
from vlib.gen import values as V
from vlib.hyp import drive, rng
from vlib.ref import evaluate as ev
from vlib.runner import HarnessError, h64

PROPERTY = "C17"
RULE = ("cases = (query of 1-3 segments mixing child/descendant segments and all selector kinds, small JSON value: <= 9 "
        "nodes, objects <= 3 members): the stdlib random functions the evaluator calls (choice, shuffle, sample) are "
        "replaced by an enumerating chooser and the whole choice tree is walked depth-first, so every outcome of every "
        "random choice is observed, not just the likely ones; oracle = the reference's set of permitted nodelists "
        "(object members in any order, descendants visited in any order with parents before descendants and array "
        "elements in index order, the selector results for one visited node contiguous); validity: every leaf's result "
        "is in the set; exhaustiveness: the set of leaf results equals the permitted set, and as a weaker guard every "
        "pair of result nodes that is permitted in both relative orders occurs in both orders; for larger values (up to "
        "40 nodes) seeded random results are validated structurally; non-trivial = the choice tree has >= 2 distinct "
        "outcomes; trees over 200000 leaves or permitted sets over 50000 are skipped and counted; distinct by "
        "(query, document)")
ASSUMPTIONS = ["permitted orderings per RFC 9535 2.5.2.2: nodes of any array in array order, nodes before their descendants, object members in any order",
               "the evaluator draws randomness only through random.choice/shuffle/sample (the chooser reports a harness error if it is never consulted)"]
TECHNIQUE = "exhaustive enumeration of the evaluator's random choice tree per input (enumerating chooser substituted for stdlib random) + Hypothesis-generated inputs; oracle = reference set of permitted nodelists"
LEVEL_TEXT = ("Per generated small input the complete tree of random choices is enumerated and every outcome compared "
              "with the exact set of nodelists RFC 9535 permits (both inclusion directions); larger inputs are sampled "
              "and validated structurally. Exhaustive per input only.")
LEVEL_NOTE = "Trusted: the permitted-set construction in this module and the reference evaluator; the chooser drives the public nondeterministic flag through stdlib random, no source hooks."

MAX_LEAVES = 200000
MAX_PERMITTED = 50000
LEAF_BUDGET = [MAX_LEAVES]   # lowered in the quick tier; replays use the full budget
_ENV = None


_LIMITED = {}


def nd_env(limit=None):
    global _ENV
    if limit is not None:
        if limit not in _LIMITED:
            _LIMITED[limit] = (lib.make_env(nondeterministic=True, max_recursion_depth=limit),
                               lib.make_env(nondeterministic=False, max_recursion_depth=limit))
        return _LIMITED[limit][0]
    if _ENV is None:
        _ENV = lib.make_env(nondeterministic=True)
    return _ENV


# ---------------------------------------------------------------- enumerating chooser
class Chooser:
    def __init__(self, prefix):
        self.prefix = prefix
        self.trace = []   # (choice, arity)

    def pick(self, arity):
        i = len(self.trace)
        c = self.prefix[i] if i < len(self.prefix) else 0
        if c >= arity:
            raise HarnessError("choice tree is not stable between runs")
        self.trace.append((c, arity))
        return c

    def choice(self, seq):
        return seq[self.pick(len(seq))]

    def shuffle(self, lst):
        items = list(lst)
        out = []
        while items:
            out.append(items.pop(self.pick(len(items))))
        lst[:] = out

    def sample(self, population, k):
        pop = list(population)
        if k != len(pop):
            raise HarnessError("random.sample used with k != len(population)")
        # arrangements of a multiset of (possibly repeated) objects: choose among the distinct remaining objects
        groups = []
        for x in pop:
            for g in groups:
                if g[0] is x:
                    g[1] += 1
                    break
            else:
                groups.append([x, 1])
        out = []
        while groups:
            i = self.pick(len(groups))
            out.append(groups[i][0])
            groups[i][1] -= 1
            if groups[i][1] == 0:
                groups.pop(i)
        return out


class patched_random:
    def __init__(self, chooser):
        self.c = chooser

    def __enter__(self):
        self.saved = (_random.choice, _random.shuffle, _random.sample)
        _random.choice, _random.shuffle, _random.sample = self.c.choice, self.c.shuffle, self.c.sample

    def __exit__(self, *a):
        _random.choice, _random.shuffle, _random.sample = self.saved


def enumerate_outcomes(q, doc, max_leaves=None):
    """Return (set of result tuples, leaves, complete?, error or None)."""
    max_leaves = max_leaves or LEAF_BUDGET[0]
    env = nd_env()
    cq = env.compile(q)
    outcomes = {}
    prefix = []
    leaves = 0
    consulted = False
    while True:
        ch = Chooser(prefix)
        with patched_random(ch):
            try:
                res = tuple((tuple(n.location)) for n in cq.find(doc))
            except HarnessError:
                raise
            except Exception as e:  # noqa: BLE001
                return outcomes, leaves, False, (lib.exc_info(e), [c for c, _ in ch.trace])
        leaves += 1
        if ch.trace:
            consulted = True
        outcomes.setdefault(res, [c for c, _ in ch.trace])
        # backtrack
        trace = ch.trace
        while trace and trace[-1][0] + 1 >= trace[-1][1]:
            trace.pop()
        if not trace:
            return outcomes, leaves, True, None if consulted or leaves == 1 else None
        prefix = [c for c, _ in trace[:-1]] + [trace[-1][0] + 1]
        if leaves >= max_leaves:
            return outcomes, leaves, False, None


# ---------------------------------------------------------------- the set RFC 9535 permits
class TooMany(Exception):
    pass


def value_at(doc, loc):
    v = doc
    for k in loc:
        v = v[k]
    return v


def selector_options(e, doc, loc, v, sel):
    """Set of tuples of locations a selector may produce for node (loc, v)."""
    t = sel[0]
    base = tuple(l for l, _ in e.selector(sel, loc, v, doc))
    if t in ("wild", "filter") and isinstance(v, dict) and len(base) > 1:
        return set(itertools.permutations(base))
    return {base}


def block_options(e, doc, loc, sels):
    v = value_at(doc, loc)
    opts = [()]
    for sel in sels:
        so = selector_options(e, doc, loc, v, sel)
        opts = [a + b for a in opts for b in so]
        if len(opts) > MAX_PERMITTED:
            raise TooMany()
    return set(opts)


def block_permitted(e, doc, loc, sels, items):
    """Is `items` (locations) a permitted result of the selectors `sels` applied to the node at loc?  Decided
    selector by selector without enumerating the permutations (objects may have hundreds of members)."""
    v = value_at(doc, loc)
    items = list(items)
    at = 0
    for sel in sels:
        base = [l for l, _ in e.selector(sel, loc, v, doc)]
        part = items[at:at + len(base)]
        at += len(base)
        if sel[0] in ("wild", "filter") and isinstance(v, dict):
            if sorted(map(repr, part)) != sorted(map(repr, base)):
                return False
        elif part != base:
            return False
    return at == len(items)


def visit_orders(doc, loc):
    """All orders in which the containers at/below loc may be visited (parents first, arrays in index order)."""
    root = value_at(doc, loc)
    if not isinstance(root, (dict, list)):
        return [(loc,)]
    out = []

    def kids(l):
        v = value_at(doc, l)
        if isinstance(v, dict):
            return [l + (k,) for k, c in v.items() if isinstance(c, (dict, list))], False
        return [l + (i,) for i, c in enumerate(v) if isinstance(c, (dict, list))], True

    def rec(order, groups):
        # groups: list of (pending children list, ordered?)
        if not any(g[0] for g in groups):
            out.append(tuple(order))
            if len(out) > MAX_PERMITTED:
                raise TooMany()
            return
        for gi, (pend, ordered) in enumerate(groups):
            if not pend:
                continue
            cands = [0] if ordered else range(len(pend))
            for ci in cands:
                n = pend[ci]
                ng = [(list(p), o) for p, o in groups]
                ng[gi][0].pop(ci)
                k, o = kids(n)
                ng.append((k, o))
                rec(order + [n], ng)

    k, o = kids(loc)
    rec([loc], [(k, o)])
    return out


def permitted(ast, doc):
    e = ev.Evaluator()
    current = {((),)}
    for seg in ast[2]:
        nxt = set()
        for nodelist in current:
            outs = [()]
            for loc in nodelist:
                if seg[0] == "child":
                    opts = block_options(e, doc, loc, seg[1])
                else:
                    opts = set()
                    for order in visit_orders(doc, loc):
                        seqs = [()]
                        for n in order:
                            bo = block_options(e, doc, n, seg[1])
                            seqs = [a + b for a in seqs for b in bo]
                            if len(seqs) > MAX_PERMITTED:
                                raise TooMany()
                        opts.update(seqs)
                        if len(opts) > MAX_PERMITTED:
                            raise TooMany()
                outs = [a + b for a in outs for b in opts]
                if len(outs) > MAX_PERMITTED:
                    raise TooMany()
            nxt.update(outs)
            if len(nxt) > MAX_PERMITTED:
                raise TooMany()
        current = nxt
    return current


def pair_orders(seqs):
    out = set()
    for s in seqs:
        if len(set(s)) != len(s):
            continue
        for i in range(len(s)):
            for j in range(i + 1, len(s)):
                out.add((s[i], s[j]))
    return out


# ---------------------------------------------------------------- oracle
def examine(case):
    if case.get("kind") == "interleaved":
        return examine_interleaved(case)
    q, ast, doc = case["q"], case["ast"], case["doc"]
    if case.get("kind") == "sampled":
        return examine_sampled(case)
    try:
        P = permitted(ast, doc)
    except TooMany:
        return None
    outcomes, leaves, complete, err = enumerate_outcomes(q, doc)
    has_desc = "descendant" in Q.features(ast)
    kind = "descendant" if has_desc else "child"
    if err is not None:
        info, choices = err
        return fail(f"raised:{info['type']}:{kind}", f"{q!r} on {doc!r} raised {info['type']} for the choices {choices}: {info['str']}", None, info)
    R = set(outcomes)
    bad = sorted(R - P, key=repr)
    if bad:
        b = bad[0]
        det = tuple(l for l, _ in ev.find(ast, doc))
        why = "nodes" if sorted(map(repr, b)) != sorted(map(repr, det)) else "order"
        return fail(f"invalid-{why}:{kind}", f"{q!r} on {doc!r}: with the random choices {outcomes[b]} the result {list(b)} is not an "
                    f"ordering RFC 9535 permits ({len(P)} are permitted)", [list(x) for x in sorted(P, key=repr)[:4]], list(b))
    if complete and R != P:
        missing = sorted(P - R, key=repr)
        po_missing = pair_orders(P) - pair_orders(R)
        if po_missing:
            x, y = sorted(po_missing, key=repr)[0]
            return fail(f"pair-order-unreachable:{kind}", f"{q!r} on {doc!r}: no outcome of the random choices puts {list(x)} before {list(y)}, "
                        f"although RFC 9535 permits it ({len(R)} of {len(P)} orderings reachable)", len(P), len(R))
        return fail(f"not-exhaustive:{kind}", f"{q!r} on {doc!r}: only {len(R)} of the {len(P)} permitted orderings are reachable over all "
                    f"{leaves} outcomes of the random choices; e.g. never {list(missing[0])}", len(P), len(R))
    return None


def examine_sampled(case):
    """Larger values: structural validity of seeded random results (multiset + block structure)."""
    q, ast, doc = case["q"], case["ast"], case["doc"]
    if case.get("alias"):
        doc = V.alias(doc, case["alias"])
    env = nd_env(case.get("limit"))
    if case.get("limit") is not None:
        # a configured max_recursion_depth that the deterministic mode gets by with must do for this mode too
        st, got_det = lib.find(q, doc, _LIMITED[case["limit"]][1])
        if st != "ok":
            if got_det["type"] != "JSONPathRecursionError":
                return None
            # ... and data the deterministic mode refuses as too deep is refused on every outcome of the random choices
            state = _random.getstate()
            try:
                for s_ in case["seeds"]:
                    _random.seed(s_)
                    st2, got2 = lib.find(q, doc, env)
                    if st2 == "ok":
                        return fail("limit-not-enforced:sampled", f"{q!r} with max_recursion_depth={case['limit']}: the deterministic mode raises "
                                    f"JSONPathRecursionError, nondeterministic mode under random seed {s_} returns {len(got2)} nodes", "JSONPathRecursionError", len(got2))
            finally:
                _random.setstate(state)
            return None
    det = [l for l, _ in ev.find(ast, doc)]
    state = _random.getstate()
    try:
        for s in case["seeds"]:
            _random.seed(s)
            st, got = lib.find(q, doc, env)
            if st == "err":
                return fail(f"raised:{got['type']}:sampled", f"{q!r} raised {got['type']} under random seed {s}: {got['str']}", None, got)
            locs = [tuple(l) for l, _ in got]
            if sorted(map(repr, locs)) != sorted(map(repr, det)):
                return fail("invalid-nodes:sampled", f"{q!r} under random seed {s}: the nodes differ from the deterministic result",
                            [list(l) for l in det[:8]], [list(l) for l in locs[:8]])
            if len(ast[2]) == 1:
                f = check_single_segment(ast[2][0], doc, locs, q, s)
                if f:
                    return f
    finally:
        _random.setstate(state)
    return None


def examine_interleaved(case):
    """One compiled query of the nondeterministic environment, several live result iterators (over the same or
    different values) advanced in turns: each iterator's own result must be a permitted one for its value."""
    q, ast, docs = case["q"], case["ast"], case["docs"]
    env = nd_env()
    state = _random.getstate()
    try:
        _random.seed(case["seed"])
        st, cq = lib.compile_(q, env)
        if st != "ok":
            return fail(f"raised:{cq['type']}:interleaved", f"{q!r} does not compile: {cq['str']}", None, cq)
        its = [iter(cq.finditer(docs[d])) for d in case["assign"]]
        got = [[] for _ in its]
        live = [True] * len(its)
        for i in case["schedule"] + list(range(len(its))) * 100000:
            if not any(live):
                break
            if not live[i]:
                continue
            try:
                node = next(its[i])
            except StopIteration:
                live[i] = False
                continue
            except Exception as e:  # noqa: BLE001
                info = lib.exc_info(e)
                return fail(f"raised:{info['type']}:interleaved", f"{q!r}: next() on iterator {i} raised {info['type']}: {info['str']}", None, info)
            doc = docs[case["assign"][i]]
            try:
                same = value_at(doc, tuple(node.location)) is node.value
            except (KeyError, IndexError, TypeError):
                same = False
            if not same:
                return fail("invalid-nodes:interleaved", f"{q!r}: iterator {i} yielded a node at {list(node.location)} that is not a node of its own value "
                            f"(other iterators of the same compiled query are live)", None, list(node.location))
            got[i].append(tuple(node.location))
            if len(got[i]) > 100000:
                return fail("invalid-nodes:interleaved", f"{q!r}: iterator {i} does not end", None, None)
        for i, locs in enumerate(got):
            doc = docs[case["assign"][i]]
            det = [l for l, _ in ev.find(ast, doc)]
            if sorted(map(repr, locs)) != sorted(map(repr, det)):
                return fail("invalid-nodes:interleaved", f"{q!r}: with {len(its)} live iterators of one compiled query, iterator {i} "
                            f"gives other nodes than the deterministic result", [list(l) for l in det[:8]], [list(l) for l in locs[:8]])
            if len(ast[2]) == 1:
                f = check_single_segment(ast[2][0], doc, locs, q, case["seed"])
                if f:
                    f["bucket"] = f["bucket"].replace(":sampled", ":interleaved")
                    return f
    finally:
        _random.setstate(state)
    return None


def check_single_segment(seg, doc, locs, q, s):
    """Blocks per visited parent are contiguous, parents come before descendants, arrays keep index order."""
    e = ev.Evaluator()
    runs = []
    for l in locs:
        p = l[:-1]
        if runs and runs[-1][0] == p:
            runs[-1][1].append(l)
        else:
            runs.append((p, [l]))
    parents = [p for p, _ in runs]
    if len(set(parents)) != len(parents):
        return fail("invalid-order:sampled", f"{q!r} seed {s}: the selector results of one visited node are not contiguous", None, [list(l) for l in locs[:12]])
    for p, items in runs:
        if not block_permitted(e, doc, p, seg[1], items):
            return fail("invalid-order:sampled", f"{q!r} seed {s}: the block for node {list(p)} is not a permitted selector result", None, [list(l) for l in items])
    for i, a in enumerate(parents):
        for b in parents[i + 1:]:
            if a[:len(b)] == b and len(a) > len(b):
                return fail("invalid-order:sampled", f"{q!r} seed {s}: node {list(a)} is visited before its ancestor {list(b)}", None, [list(a), list(b)])
            if len(a) == len(b) and a[:-1] == b[:-1] and isinstance(a[-1], int) and isinstance(b[-1], int) and a[-1] > b[-1] \
                    and isinstance(value_at(doc, a[:-1]), list):
                return fail("invalid-order:sampled", f"{q!r} seed {s}: array elements {list(a)} and {list(b)} are visited out of index order", None, [list(a), list(b)])
    return None


def fail(bucket, what, expected, observed):
    return {"bucket": bucket, "what": what, "expected": expected, "observed": observed}


# ---------------------------------------------------------------- generation
def small_value(r, budget):
    def val(depth):
        budget[0] -= 1
        if budget[0] <= 0 or depth <= 0 or r.random() < 0.3:
            return r.choice([1, 2, 3, "x", None, True])
        if r.random() < 0.45:
            return [val(depth - 1) for _ in range(r.randrange(0, 3))]
        keys = r.sample(["a", "b", "c"], r.choice([1, 2, 2, 2, 3]))
        return {k: val(depth - 1) for k in keys}

    k = r.random()
    if k < 0.25:
        # two or three chains of containers of different depth: where visiting order matters most
        def chain(d):
            v = r.choice([1, "x", None])
            for _ in range(d):
                v = [v] if r.random() < 0.4 else {r.choice(["a", "b", "c"]): v}
            return v
        keys = r.sample(["a", "b", "c"], r.choice([2, 2, 3]))
        out = {key: chain(r.choice([0, 1, 1, 2, 2, 3])) for key in keys}
        return out if r.random() < 0.7 else list(out.values())
    if k < 0.7:
        return {key: val(2) for key in r.sample(["a", "b", "c"], r.choice([1, 2, 2, 3]))}
    return [val(2) for _ in range(r.randrange(1, 4))]


def plan(tier, seed):
    if tier == "quick":
        return [{"n": 40, "sampled": 40} for _ in range(16)]
    return [{"n": 400, "sampled": 1500} for _ in range(16)]


def gen_query(r, shard, doc, nseg_max=3, filters=True):
    names = ["a", "b", "c"]
    g = Q.QGen(r, names=names, filters=filters, max_filter_depth=1, functions=False)
    g.doc = doc
    segs = []
    for _ in range(r.randrange(1, nseg_max + 1)):
        kind = "desc" if r.random() < 0.45 else "child"
        k = 1 if r.random() < 0.7 else 2
        sels = []
        for _ in range(k):
            c = r.randrange(10)
            if c < 4:
                sels.append(["wild"])
            elif c < 5:
                sels.append(["name", r.choice(names)])
            elif c < 6:
                sels.append(["index", r.choice([0, 1, -1])])
            elif c < 7:
                sels.append(["slice", None, None, r.choice([None, 1, -1, 2])])
            else:
                sels.append(["filter", r.choice([["test", ["q", "@", []]], ["test", ["q", "@", [["child", [["wild"]]]]]],
                                                 ["cmp", ">", ["q", "@", []], ["lit", 1]], ["not", ["test", ["q", "@", [["child", [["name", "a"]]]]]]]])])
        segs.append([kind, sels])
    ast = ["q", "$", segs]
    return ast, Q.canonical(ast)


def run_shard(spec, shard):
    LEAF_BUDGET[0] = 20000 if spec["tier"] == "quick" else MAX_LEAVES

    def body(r):
        budget = [r.randrange(3, 9)]
        doc = small_value(r, budget)
        ast, text = gen_query(r, shard, doc)
        case = {"q": text, "ast": ast, "doc": doc}
        try:
            P = permitted(ast, doc)
        except TooMany:
            shard.notes["skipped:permitted-set-too-large"] += 1
            return
        outcomes, leaves, complete, err = enumerate_outcomes(text, doc)
        if not complete and err is None:
            shard.notes["skipped:choice-tree-over-leaf-budget(%d)" % LEAF_BUDGET[0]] += 1
            return
        feats = Q.features(ast)
        shard.case(key=(text, doc), nontrivial=len(outcomes) >= 2, n=1,
                   classes={f for f in feats if f in ("descendant", "filter", "wild", "multi-selector")} |
                   {"outcomes>=2" if len(outcomes) >= 2 else "outcomes=1", "permitted>=2" if len(P) >= 2 else "permitted=1"},
                   sample={"q": text, "doc": doc, "leaves": leaves, "distinct_outcomes": len(outcomes), "permitted": len(P)})
        shard.classes["choice-tree-leaves"] += leaves
        shard.sets["inputs-with-complete-choice-tree"].add(h64((text, doc)))
        f = examine(case)
        if f:
            shard.fail(f["bucket"], case, f)

    drive(rng(), spec["n"], spec["seed"], body)

    def sbody(r):
        doc = diff.make_doc(r, "quick", names=["a", "b", "c"], falsy_bias=0.1)
        if r.random() < 0.25:
            # a wide value (hundreds of waiting nodes) around a small nested array structure: orderings of the
            # arrays are completely fixed by RFC 9535, whatever the traversal does with large queues
            pad = [r.choice([0, "x", None]) for _ in range(r.choice([100, 300, 511, 512, 513, 600, 1100]))]
            core = r.choice([[[[1], [2]]], [[1, [2, [3]]], [[4], 5]], {"a": [[1], [2], [3]]}, [[[["a"], ["b"]], [["c"]]]]])
            k = r.randrange(3)
            doc = [core] + pad if k == 0 else pad + [core] if k == 1 else pad[: len(pad) // 2] + [core] + pad[len(pad) // 2:]
        ast, text = gen_query(r, shard, doc, nseg_max=r.choice([1, 1, 2, 3]))
        case = {"kind": "sampled", "q": text, "ast": ast, "doc": doc, "seeds": [r.randrange(10**9) for _ in range(6)]}
        if r.random() < 0.6 and "descendant" in Q.features(ast):
            depth = V.depth(doc) if hasattr(V, "depth") else 6
            case["limit"] = r.randint(1, max(1, depth) + 1)
        shared = r.random() < 0.2
        if shared:
            # the same sub-object referenced from several places (a DAG, not a cycle): every reference is a node
            case["alias"] = r.randrange(1, 2**31)
        shard.case(key=(text, doc, "sampled", case.get("alias")), nontrivial="descendant" in Q.features(ast) or "wild" in Q.features(ast),
                   classes={"sampled"} | ({"sampled:shared-sub-objects"} if shared else set()) | ({"sampled:tight-recursion-limit"} if "limit" in case else set()), sample=None)
        f = examine(case)
        if f:
            shard.fail(f["bucket"], case, f)

    drive(rng(), spec["sampled"], spec["seed"] + 3, sbody)

    def ibody(r):
        docs = [diff.make_doc(r, "quick", names=["a", "b", "c"], falsy_bias=0.1) for _ in range(2)]
        ast, text = gen_query(r, shard, docs[0], nseg_max=r.choice([1, 1, 2, 3]))
        k = r.choice([2, 2, 3])
        assign = [r.randrange(2) for _ in range(k)]
        case = {"kind": "interleaved", "q": text, "ast": ast, "docs": docs, "assign": assign,
                "schedule": [r.randrange(k) for _ in range(r.choice([0, 5, 40, 200]))], "seed": r.randrange(10**9)}
        feats = Q.features(ast)
        shard.case(key=(text, docs, assign, case["schedule"]), nontrivial="descendant" in feats or "wild" in feats or "filter" in feats,
                   classes={"interleaved-iterators-of-one-compiled-query"} | ({"interleaved:descendant"} if "descendant" in feats else set()),
                   sample={"q": text, "iterators": k, "assign": assign})
        f = examine(case)
        if f:
            shard.fail(f["bucket"], case, f)

    drive(rng(), spec["sampled"], spec["seed"] + 5, ibody)


def minimise(case, failure, tier):
    if case.get("kind") in ("sampled", "interleaved"):
        return case, failure
    bucket = failure["bucket"]

    def ok(d):
        if not isinstance(d, (dict, list)):
            return False
        f = examine(dict(case, doc=d))
        return f is not None and f["bucket"] == bucket

    d = shrink.shrink_json(case["doc"], ok, shrink.Budget(300))
    c2 = dict(case, doc=d)
    return c2, examine(c2) or failure


def signature(case, failure):
    return f"C17:{failure['bucket']}"
