"""C18 Descendant traversal is bounded: deep/cyclic data raises JSONPathRecursionError."""
from __future__ import annotations

import json
import os
import subprocess
import sys

from vlib.hyp import drive, rng

PROPERTY = "C18"
RULE = ("cases = (max_recursion_depth L, mode, shape, query): L in 1-12, 100 (default) and in the thorough tier up to "
        "2000; a spine of d containers (d from L-2 to L+3) mixing objects and arrays, with shallow side branches "
        "before/after/around the deep child and a scalar or an empty container at the bottom; the descendant segment "
        "applied at the root and below a child segment; cyclic values (self-loops, cycles of length 2-4 through "
        "objects and arrays, with and without branching); deterministic and nondeterministic mode; oracle: nesting "
        "<= L => completes and equals the reference (as a multiset of locations in nondeterministic mode); nesting > L "
        "or cyclic => JSONPathRecursionError, never RecursionError, a hang or unbounded growth - cyclic cases and cases "
        "with L > 300 run in a child process under RLIMIT_CPU (10 s) and RLIMIT_AS (2 GB); a child killed by a limit "
        "is re-run once and reported only if killed again; non-trivial = |d - L| <= 2, or cyclic; distinct by "
        "(L, mode, shape, query)")
ASSUMPTIONS = ["the depth of data is its container nesting counted from the node the descendant segment is applied to (root = 1)",
               "10 s of CPU is four orders of magnitude above the normal cost of these cases"]
TECHNIQUE = "Hypothesis-generated boundary shapes around the configured limit + resource-limited child processes for cyclic data; oracle = nesting arithmetic and the reference evaluator"
LEVEL_TEXT = ("Shapes generated at and around the configured limit in both modes; completion vs JSONPathRecursionError "
              "must follow the nesting exactly, results must equal the reference, and cyclic data must raise within "
              "CPU/memory limits enforced on a child process. Sampled limits and shapes.")
LEVEL_NOTE = "Trusted: the shape builder and nesting arithmetic in this module; the iterative reference evaluator. Limits up to 2000 only."

CPU_LIMIT = 10
AS_LIMIT = 2 * 1024**3
IN_PROCESS_MAX_L = 300


# ---------------------------------------------------------------- building values from a declarative shape
def build(shape):
    """Return (value, nesting relative to the root)."""
    if shape.get("cycle"):
        return build_cycle(shape["cycle"]), None
    kinds = shape["spine"]
    bottom = shape.get("bottom", "scalar")
    side = shape.get("side", "none")
    leaf = 1 if bottom == "scalar" else ([] if bottom == "empty-arr" else {})
    nesting = len(kinds) + (0 if bottom == "scalar" else 1)
    cur = leaf
    for k in reversed(kinds):
        shallow = [{"a": 1}, [2, [3]], 0]
        if k == "obj":
            node = {}
            if side in ("before", "around"):
                node["p"] = shallow[0]
                node["a"] = 7
            node["k"] = cur
            if side in ("after", "around"):
                node["s"] = shallow[1]
            cur = node
        else:
            node = []
            if side in ("before", "around"):
                node.extend([shallow[2], shallow[0]])
            node.append(cur)
            if side in ("after", "around"):
                node.append(shallow[1])
            cur = node
    if shape.get("shared") and kinds:
        # one acyclic sub-object referenced twice (below the root and again next to the spine)
        sh = {"a": [1, {"a": 2}]}
        if isinstance(cur, dict):
            cur["x1"] = [sh, sh]
        else:
            cur.append([0, sh, {"t": sh}])
        nesting = max(nesting, 1 + 4)
    if side != "none" and kinds:
        # side branches add at most 2 levels below their parent; they never exceed the spine except near the bottom
        extra = 2 if side in ("after", "around") else 1
        nesting = max(nesting, len(kinds) - 1 + 1 + extra) if len(kinds) >= 1 else nesting
    return cur, nesting


def build_cycle(c):
    kinds = c["kinds"]
    nodes = [{} if k == "obj" else [] for k in kinds]
    n = len(nodes)
    for i, node in enumerate(nodes):
        nxt = nodes[(i + 1) % n]
        links = [nxt] * max(1, c.get("branch", 1))
        if c.get("uniform"):
            i = 0       # every member of the cycle looks the same: an == between two of them never terminates
        if isinstance(node, dict):
            node["a"] = i
            for j, l in enumerate(links):
                node["k%d" % j] = l
        else:
            node.append(i)
            node.extend(links)
    entry = c.get("entry", "direct")
    if entry == "wrapped":
        return {"w": [nodes[0]], "a": 0}
    return nodes[0]


def first_step(shape):
    """Child-segment text selecting the spine child of the root, or None."""
    if shape.get("cycle"):
        c = shape["cycle"]
        if c.get("entry") == "wrapped":
            return ".w"
        return ".k0" if c["kinds"][0] == "obj" else "[1]"
    kinds = shape["spine"]
    if not kinds:
        return None
    if kinds[0] == "obj":
        return ".k"
    return "[2]" if shape.get("side") in ("before", "around") else "[0]"


def iter_nesting(v):
    """Container nesting of an acyclic value, iteratively (root container = 1, scalar = 0)."""
    best = 0
    stack = [(v, 1)]
    while stack:
        x, d = stack.pop()
        if isinstance(x, dict):
            best = max(best, d)
            stack.extend((y, d + 1) for y in x.values())
        elif isinstance(x, list):
            best = max(best, d)
            stack.extend((y, d + 1) for y in x)
    return best


def ref_descend(v, tail):
    """Reference result of '..' + tail for tail in {'a' name, '*' wildcard}: list of location tuples (pre-order)."""
    out = []
    stack = [((), v)]
    while stack:
        loc, x = stack.pop()
        if isinstance(x, dict):
            kids = [(loc + (k,), c) for k, c in x.items()]
        elif isinstance(x, list):
            kids = [(loc + (i,), c) for i, c in enumerate(x)]
        else:
            kids = []
        if tail == "*":
            out.extend(l for l, _ in kids)
        elif isinstance(x, dict) and tail in x:
            out.append(loc + (tail,))
        stack.extend(reversed(kids))
    return out


def expected_of(case):
    shape, L = case["shape"], case["L"]
    if shape.get("cycle"):
        return "recursion-error", None
    v, _ = build(shape)
    start = v
    prefix = ()
    if case["below_child"]:
        step = first_step(shape)
        if step is None:
            return "ok", []
        key = step[1:] if step.startswith(".") else int(step[1:-1])
        if isinstance(v, dict):
            start = v.get(key, None) if isinstance(key, str) else None
        elif isinstance(v, list) and isinstance(key, int) and key < len(v):
            start = v[key]
        else:
            start = None
        prefix = (key,)
        if start is None and not (isinstance(v, dict) and key in v):
            return "ok", []
    nest = iter_nesting(start)
    if nest > L:
        return "recursion-error", None
    return "ok", [prefix + l for l in ref_descend(start, case["tail"])]


def query_of(case):
    q = "$"
    if case["below_child"]:
        step = first_step(case["shape"])
        if step:
            q += step
    return q + (".." + case["tail"] if case["tail"] != "*" else "..*")


CHILD = r'''
import json, resource, sys
case = json.load(sys.stdin)
resource.setrlimit(resource.RLIMIT_CPU, (case["cpu"], case["cpu"] + 1))
resource.setrlimit(resource.RLIMIT_AS, (case["as"], case["as"]))
sys.path.insert(0, case["verif"])
from checks import c18
print(json.dumps(c18.run_in_process(case)))
'''


def run_in_process(case):
    if case["mode"] == "nondet" and not case["shape"].get("cycle") and case["L"] <= 12 and not case.get("_one_outcome"):
        # several outcomes of the random choices: the bound must hold on each of them
        import random as _random
        state = _random.getstate()
        try:
            outs = []
            for k in range(6):
                _random.seed(case["L"] * 1000 + k)
                outs.append(run_in_process(dict(case, _one_outcome=True)))
            kinds = {o["outcome"] for o in outs}
            if len(kinds) == 1:
                return outs[0]
            odd = [o for o in outs if o["outcome"] not in ("ok", "recursion-error")]
            if odd:
                return odd[0]
            return {"outcome": "differs-between-random-outcomes", "detail": "completes on some outcomes of the random choices and raises JSONPathRecursionError on others"}
        finally:
            _random.setstate(state)
    import jsonpath_rfc9535 as jp

    how = case.get("config", "class")
    if how == "instance":
        # the same configuration set on the instance after construction
        env = jp.JSONPathEnvironment()
        env.nondeterministic = case["mode"] == "nondet"
        env.max_recursion_depth = case["L"]
    elif how == "changed-after-compile":
        # compile under another limit, then set the limit: the bound is the one configured when the query is applied
        env = type("E", (jp.JSONPathEnvironment,), {"nondeterministic": case["mode"] == "nondet",
                                                    "max_recursion_depth": case["L"] + 7})()
    elif how == "class-changed-after-instance":
        # the environment exists already (as the package's default environment does from import time) when its class
        # is configured
        cls = type("E", (jp.JSONPathEnvironment,), {})
        env = cls()
        cls.nondeterministic = case["mode"] == "nondet"
        cls.max_recursion_depth = case["L"]
    else:
        env = type("E", (jp.JSONPathEnvironment,), {"nondeterministic": case["mode"] == "nondet",
                                                    "max_recursion_depth": case["L"]})()
    v, _ = build(case["shape"])
    q = query_of(case)
    try:
        if how == "changed-after-compile":
            cq = env.compile(q)
            env.max_recursion_depth = case["L"]
            nodes = cq.find(v)
        else:
            nodes = env.find(q, v)
        return {"outcome": "ok", "locations": [list(n.location) for n in nodes]}
    except jp.JSONPathRecursionError:
        return {"outcome": "recursion-error"}
    except RecursionError:
        return {"outcome": "interpreter-RecursionError"}
    except MemoryError:
        return {"outcome": "MemoryError"}
    except Exception as e:  # noqa: BLE001
        return {"outcome": "exception:" + type(e).__name__, "detail": str(e)[:200]}


def run_child(case):
    payload = dict(case, cpu=CPU_LIMIT, **{"as": AS_LIMIT}, verif=os.path.dirname(os.path.dirname(os.path.abspath(__file__))))
    for attempt in (1, 2):
        p = subprocess.run([sys.executable, "-X", "utf8", "-c", CHILD], input=json.dumps(payload), capture_output=True,
                           text=True, timeout=CPU_LIMIT * 6 + 60)
        if p.returncode == 0 and p.stdout.strip():
            return json.loads(p.stdout.strip().splitlines()[-1])
        killed = f"killed(returncode={p.returncode})"
        if "MemoryError" in (p.stderr or ""):
            killed = "MemoryError"
        if attempt == 2:
            return {"outcome": "resource-limit", "detail": killed}
    return {"outcome": "resource-limit"}


def needs_child(case):
    return bool(case["shape"].get("cycle")) or case["L"] > IN_PROCESS_MAX_L


def examine(case):
    exp, locs = expected_of(case)
    got = run_child(case) if needs_child(case) else run_in_process(case)
    cyc = case["shape"].get("cycle")
    shape_class = ("cycle-branching" if cyc and cyc.get("branch", 1) > 1 else "cycle" if cyc else "acyclic")
    tag = f"{case['mode']}:{shape_class}"
    q = query_of(case)
    desc = f"{q} with max_recursion_depth={case['L']}, {case['mode']} mode, shape {json.dumps(case['shape'])[:120]}"
    if got["outcome"] != exp:
        if got["outcome"] == "ok" and exp == "recursion-error":
            return fail(f"completed-beyond-limit:{tag}", f"{desc}: completed, but the data is nested deeper than the limit / is cyclic",
                        exp, got["outcome"])
        if got["outcome"] == "recursion-error":
            return fail(f"raised-within-limit:{tag}", f"{desc}: raised JSONPathRecursionError although nesting <= limit", exp, got["outcome"])
        return fail(f"{got['outcome'].split(':')[0]}:{tag}", f"{desc}: {got['outcome']} {got.get('detail', '')}", exp, got)
    if exp == "ok":
        g = [tuple(l) for l in got["locations"]]
        if case["mode"] == "det":
            if g != locs:
                return fail(f"wrong-result:{tag}", f"{desc}: result differs from the reference", [list(l) for l in locs[:8]], [list(l) for l in g[:8]])
        elif sorted(map(repr, g)) != sorted(map(repr, locs)):
            return fail(f"wrong-result:{tag}", f"{desc}: result is not a permutation of the reference", [list(l) for l in locs[:8]], [list(l) for l in g[:8]])
    return None


def fail(bucket, what, expected, observed):
    return {"bucket": bucket, "what": what, "expected": expected, "observed": observed}


def plan(tier, seed):
    if tier == "quick":
        return [{"n": 75, "big": False} for _ in range(16)]
    return [{"n": 2000, "big": True} for _ in range(16)]


# Known finding AB: nondeterministic mode on a *branching* cycle explores breadth-first and does not reach the
# depth limit in bounded time for limits above ~20.  Such cases are not generated (counted); its witness is
# replayed by the runner on every run.
def excluded_ab(case):
    c = case["shape"].get("cycle")
    return bool(c) and c.get("branch", 1) > 1 and case["mode"] == "nondet" and case["L"] > 14


def run_shard(spec, shard):
    def body(r):
        big = spec["big"]
        L = r.choice([1, 2, 3, 4, 5, 6, 7, 8, 9, 10, 11, 12, 100, 100] + ([301, 500, 999, 1000, 1001, 2000] if big and r.random() < 0.15 else []))
        mode = r.choice(["det", "nondet"])
        below = r.random() < 0.35
        tail = r.choice(["a", "*"])
        if r.random() < 0.22:
            n = r.choice([1, 1, 2, 3, 4])
            shape = {"cycle": {"kinds": [r.choice(["obj", "arr"]) for _ in range(n)], "branch": r.choice([1, 1, 2, 3]),
                               "entry": r.choice(["direct", "wrapped"])}}
            if r.random() < 0.4:
                shape["cycle"]["uniform"] = True
                if r.random() < 0.5:
                    shape["cycle"]["kinds"] = [shape["cycle"]["kinds"][0]] * n
        else:
            d = max(0, L + r.choice([-3, -2, -2, -1, -1, -1, 0, 0, 1, 2]) + (1 if below else 0))
            if r.random() < 0.06:
                d = L + r.choice([400, 1200, 3000])     # far beyond the limit (and beyond what the interpreter can recurse into)
            k = r.random()
            if k < 0.3:
                kinds = ["obj"] * d
            elif k < 0.6:
                kinds = ["arr"] * d
            else:
                kinds = [r.choice(["obj", "arr"]) for _ in range(d)]
            shape = {"spine": kinds, "bottom": r.choice(["scalar", "scalar", "empty-arr", "empty-obj"]),
                     "side": r.choice(["none", "before", "after", "around"])}
            if L > 20:
                shape["side"] = r.choice(["none", "before"])
            if L >= 6 and r.random() < 0.2:
                shape["shared"] = True
        case = {"L": L, "mode": mode, "shape": shape, "below_child": below, "tail": tail,
                "config": r.choice(["class", "class", "instance", "changed-after-compile", "class-changed-after-instance"])}
        if excluded_ab(case):
            shard.excluded["AB:nondeterministic-mode-on-a-branching-cycle-with-limit>14"] += 1
            return
        exp, locs = expected_of(case)
        cyc = bool(shape.get("cycle"))
        if cyc:
            nt = True
            delta = "cyclic"
        else:
            v, _ = build(shape)
            start_nest = iter_nesting(v) - (1 if below and shape["spine"] else 0)
            delta = start_nest - L
            nt = abs(delta) <= 2
        shard.case(key=case, nontrivial=nt,
                   classes={"mode:" + mode, "expected:" + exp, "config:" + case["config"], "L:" + ("default" if L == 100 else "small" if L <= 12 else "large"),
                            "delta:" + str(delta), "below-child" if below else "at-root",
                            "shape:" + ("cycle" if cyc else shape["side"] + "/" + shape["bottom"])},
                   sample={"L": L, "mode": mode, "query": query_of(case), "shape": shape if cyc or len(shape["spine"]) < 14 else
                           {"spine": f"{len(shape['spine'])} containers", "bottom": shape["bottom"], "side": shape["side"]},
                           "expected": exp})
        f = examine(case)
        if f:
            shard.fail(f["bucket"], case, f)

    drive(rng(), spec["n"], spec["seed"], body)


def minimise(case, failure, tier):
    return case, failure


def signature(case, failure):
    return f"C18:{failure['bucket']}"
