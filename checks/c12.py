"""C12 str(query) is a faithful canonical form: it reparses to the same query."""
from __future__ import annotations

from vlib import diff, lib
from vlib.gen import queries as Q
from vlib.gen import values as V
from vlib.hyp import drive, rng
from vlib.ref import abnf, normpath, typecheck
from vlib.ref import evaluate as ev

PROPERTY = "C12"
RULE = ("cases = (valid query text q, documents generated for q): s1 = str(compile(q)) must be VALID and well-typed "
        "for the reference, compile(s1) must succeed, str(compile(s1)) == s1, every string literal lexeme in s1 must "
        "be the canonical single-quoted rendering of its decoded value, and find(s1, v) == find(q, v) node for node on "
        "each document (the guided document plus variations); in addition the reference ASTs of q and s1 are compared "
        "after dropping redundant parentheses, flattening &&/|| chains and normalising numbers and slice steps - a "
        "difference directs a focused search over more documents; parenthesised and negated shapes are forced often; "
        "a second registry with LogicalType parameters exercises logical expressions as function arguments; "
        "non-trivial = the filter has >= 2 logical operators, or parentheses / '!' around a compound expression; "
        "distinct by query text")
ASSUMPTIONS = ["vlib/ref/abnf.py, typecheck.py, evaluate.py as for C01-C03",
               "numbers within the exactly representable range"]
TECHNIQUE = "Hypothesis property-based testing; round-trip + metamorphic oracle (same nodes before/after str), validity by the reference recogniser"
LEVEL_TEXT = ("Generated valid queries (grouping-sensitive shapes forced) are serialised; the text must be valid for an "
              "independent recogniser, stable under a second round trip, canonical in its literals, and select the "
              "same nodes as the original on generated documents. Sampled.")
LEVEL_NOTE = "Trusted: reference recogniser/type checker for validity of str(); the equivalence oracle is the library itself on concrete documents (plus the reference AST comparison to direct the search)."

NAMES = ["a", "b", "c", "d", "'", '"', "\\", "\n", "\u00e9", "\x00", "a b", "", "\U0001F600"]


def norm(x):
    """Normalise an AST: drop redundant parens, flatten and/or, numbers by value, slice step default."""
    if not isinstance(x, list) or not x:
        return x
    t = x[0]
    if t == "lit":
        v = x[1]
        if isinstance(v, float) and v.is_integer() and abs(v) < 2**62:
            v = int(v)
        return ["lit", v]
    if t == "slice":
        return ["slice", x[1], x[2], 1 if x[3] is None else x[3]]
    if t == "paren":
        inner = norm(x[1])
        return inner  # grouping is re-established below by structure
    if t in ("and", "or"):
        items = []
        for y in x[1]:
            ny = norm(y)
            if ny[0] == t:
                items.extend(ny[1])
            else:
                items.append(ny)
        return [t, items]
    if t == "not":
        inner = norm(x[1])
        if inner[0] == "not":
            return inner[1]
        return ["not", inner]
    return [norm(y) for y in x]


def literal_lexemes(text):
    """[(lexeme, decoded)] for every string literal in a VALID query text."""
    p = abnf.P(text)
    out = []
    i = 0
    n = len(text)
    while i < n:
        if text[i] in "'\"":
            r = p.string_literal(i)
            if r is None:
                return None
            out.append((text[i:r[0]], r[1]))
            i = r[0]
        else:
            i += 1
    return out


def examine(case):
    if case.get("kind") == "sweep":
        return examine_sweep(case)
    with lib.ambient(case.get("ambient")):
        return _examine(case)


def _examine(case):
    q = case["q"]
    registry = C10REG if case.get("registry") == "probes" else None
    env = c10env() if registry else None
    st, cq = lib.compile_(q, env)
    if st != "ok":
        return None  # acceptance is C03's business
    try:
        s1 = str(cq)
    except Exception as e:  # noqa: BLE001
        return fail("str-raised", f"str(compile({q!r})) raised {type(e).__name__}: {e}", None, repr(e))
    res = abnf.classify(s1)
    if res.verdict == abnf.INVALID:
        return fail("str-invalid", f"str(compile({q!r})) = {s1!r} is not a valid RFC 9535 query (reference stops at "
                    f"offset {res.far}: {', '.join(res.rules)})", "a valid query", s1)
    if res.verdict == abnf.VALID:
        tc = typecheck.check(res.ast, registry)
        if tc is not None:
            return fail("str-illtyped", f"str(compile({q!r})) = {s1!r} is not well-typed: {tc}", "well-typed", s1)
    st2, cq2 = lib.compile_(s1, env)
    if st2 != "ok":
        if res.verdict == abnf.VALID and diff.EXCLUDE_R and diff.arg_starts_with_not_or_paren(res.ast):
            return fail("str-not-recompilable-R", f"str(compile({q!r})) = {s1!r} starts a function argument with '!' or '(' "
                        f"which compile() refuses (finding R)", "compiles", cq2)
        return fail("str-not-recompilable", f"str(compile({q!r})) = {s1!r} does not compile: {cq2['type']}: {cq2['str']}",
                    "compiles", cq2)
    s2 = str(cq2)
    if s2 != s1:
        return fail("str-unstable", f"str is not idempotent for {q!r}: {s1!r} then {s2!r}", s1, s2)
    lex = literal_lexemes(s1)
    if lex is None:
        return fail("str-invalid", f"string literal in {s1!r} is malformed", None, s1)
    for lexeme, decoded in lex:
        if lexeme != normpath.render_name(decoded):
            return fail("literal-not-canonical", f"in str(compile({q!r})) the literal {lexeme!r} is not the canonical "
                        f"single-quoted form {normpath.render_name(decoded)!r}", normpath.render_name(decoded), lexeme)
    for doc in case["docs"]:
        a = lib.find(cq, doc, env)
        b = lib.find(cq2, doc, env)
        if a[0] != b[0] or (a[0] == "ok" and not ev.same_nodelist(a[1], b[1])):
            return fail("reparse-differs", f"{q!r} and its str() {s1!r} select different nodes",
                        ev.show_nodes(a[1]) if a[0] == "ok" else a[1], ev.show_nodes(b[1]) if b[0] == "ok" else b[1],
                        doc=doc)
    return None


def fail(bucket, what, expected, observed, doc=None):
    f = {"bucket": bucket, "what": what, "expected": expected, "observed": observed}
    if doc is not None:
        f["doc"] = doc
    return f


C10REG = None
_c10env = None


def c10env():
    global _c10env, C10REG
    from checks import c10
    if _c10env is None:
        _c10env = c10.lib_env()
    return _c10env


def _load_c10():
    global C10REG
    from checks import c10
    C10REG = c10.REG


_load_c10()


def plan(tier, seed):
    if tier == "quick":
        specs = [{"n": 600} for _ in range(16)]
        ranges = [(0, 0x800), (0xD7F0, 0xD800), (0xE000, 0xE010), (0xFFF0, 0x10010), (0x1F600, 0x1F608), (0x10FFF0, 0x110000)]
    else:
        specs = [{"n": 6000} for _ in range(16)]
        ranges = [(lo, min(lo + 0x4000, 0x110000)) for lo in range(0, 0x110000, 0x4000)]
    for i in range(16):
        specs[i]["sweep"] = ranges[i::16]
    from vlib.runner import INTERPRETERS
    for name in INTERPRETERS:
        specs.append({"n": 80 if tier == "quick" else 500, "interp": name, "sweep": [(0, 0x100)]})
    return specs


def examine_sweep(case):
    """str() of $['<c>'] and of $[?@ == "<c>"] for every code point c: canonical single-quoted form, stable, same meaning."""
    for cp in range(case["lo"], case["hi"]):
        if 0xD800 <= cp <= 0xDFFF:
            continue
        c = chr(cp)
        for q in ("$[" + Q.spell_string(c, None, '"') + "]", "$[?@ == " + Q.spell_string(c, None, "'") + "]"):
            st, cq = lib.compile_(q)
            if st != "ok":
                continue
            s1 = str(cq)
            want = normpath.render_name(c)
            if want not in s1:
                return fail("literal-not-canonical", f"str(compile({q!r})) = {s1!r} does not contain the canonical literal {want!r} "
                            f"for U+{cp:04X}", want, s1)
            st2, cq2 = lib.compile_(s1)
            if st2 != "ok":
                return fail("str-not-recompilable", f"str(compile({q!r})) = {s1!r} does not compile: {cq2['str']}", "compiles", cq2)
            if str(cq2) != s1:
                return fail("str-unstable", f"str is not idempotent for {q!r}", s1, str(cq2))
            doc = {c: 1, "other": 2} if q.startswith("$[\"") or q[2] == '"' else [c, "other"]
            a, b = lib.find(cq, doc), lib.find(cq2, doc)
            if a != b and not (a[0] == "ok" and b[0] == "ok" and ev.same_nodelist(a[1], b[1])):
                return fail("reparse-differs", f"{q!r} and its str() {s1!r} select different nodes", None, None)
    return None


def deep_logic(g, r, depth, fdepth=1):
    """A random nest of !, parentheses, && and || (canonical parser shape) over basic expressions."""
    if depth <= 0 or r.random() < 0.15:
        return g.basic(fdepth, 0)
    k = r.randrange(6)
    if k == 0:
        inner = deep_logic(g, r, depth - 1, fdepth)
        if r.random() < 0.35:
            inner = ["not", ["paren", inner]]      # double negation around whatever comes out
        return ["not", ["paren", inner]]
    if k == 1:
        return ["paren", deep_logic(g, r, depth - 1, fdepth)]
    if k in (2, 3):
        ops = []
        for _ in range(r.randrange(2, 4)):
            x = deep_logic(g, r, depth - 1, fdepth)
            if x[0] in ("and", "or"):
                x = ["paren", x] if x[0] == "or" or r.random() < 0.5 else x
            if x[0] == "and":
                x = ["paren", x]
            ops.append(x)
        return ["and", ops]
    ops = []
    for _ in range(r.randrange(2, 4)):
        x = deep_logic(g, r, depth - 1, fdepth)
        if x[0] == "or":
            x = ["paren", x]
        ops.append(x)
    return ["or", ops]


def force_grouping(g, r, fdepth=1):
    if r.random() < 0.4:
        return deep_logic(g, r, r.choice([2, 3, 3, 4]), fdepth)
    """Grouping-sensitive shapes: !(a == b), !(a && b), (a || b) && c, a && (b || c), !(!a), !(a) ..."""
    a, b, c = g.basic(fdepth, 1), g.basic(fdepth, 1), g.basic(fdepth, 1)
    cmp1 = ["cmp", r.choice(Q.OPS), g.singular(), g.literal()]
    k = r.randrange(10)
    if k == 0:
        return ["not", ["paren", cmp1]]
    if k == 1:
        return ["not", ["paren", ["and", [a, b]]]]
    if k == 2:
        return ["and", [["paren", ["or", [a, b]]], c]]
    if k == 3:
        return ["and", [a, ["paren", ["or", [b, c]]]]]
    if k == 4:
        return ["not", ["paren", ["not", ["test", g.filter_query(fdepth)]]]]
    if k == 5:
        return ["or", [["and", [a, b]], ["not", ["paren", ["or", [c, cmp1]]]]]]
    if k == 6:
        return ["paren", ["paren", cmp1]]
    if k == 7:
        return ["not", ["paren", ["paren", ["and", [cmp1, a]]]]]
    if k == 8:
        return ["or", [["paren", ["and", [a, ["paren", ["or", [b, cmp1]]]]]], c]]
    return ["and", [["not", ["paren", cmp1]], ["not", ["test", g.filter_query(fdepth)]], ["paren", ["or", [a, b]]]]]


def doc_for_query(r, asts):
    """A document built from the names and literals of the given ASTs (and values next to them)."""
    names, lits = [], []
    for ast in asts:
        for x in Q.walk(ast):
            if x and x[0] == "name":
                names.append(x[1])
            elif x and x[0] == "lit":
                lits.append(x[1])
    names = list(dict.fromkeys(names)) or ["a"]
    pool = list(lits)
    nums = [v for v in lits if isinstance(v, (int, float)) and not isinstance(v, bool)]
    for v in nums:
        if abs(v) < 1e300:
            pool += [v + 1, v - 1, v + 0.5, v - 0.25, int(v) if v == v and abs(v) < 2**62 else v, float(v)]
    for i in range(len(nums) - 1):
        pool.append((nums[i] + nums[i + 1]) / 2)
    for v in lits:
        if isinstance(v, str):
            pool += [v + "a", v[:-1], v.upper()]
    pool += [None, True, False, 0, "", [], {}, [1], {"a": 1}]

    def val(depth):
        k = r.random()
        if depth <= 0 or k < 0.55:
            return V.fresh(r.choice(pool))
        if k < 0.8:
            return {n: val(depth - 1) for n in r.sample(names, min(len(names), r.randrange(1, 4)))}
        return [val(depth - 1) for _ in range(r.randrange(0, 4))]

    rows = [val(2) for _ in range(r.randrange(2, 7))]
    if r.random() < 0.3:
        return {n: rows[i % len(rows)] for i, n in enumerate(names[:5])}
    return rows


def run_shard(spec, shard):
    tier = spec["tier"]
    for lo, hi in spec.get("sweep", []):
        case = {"kind": "sweep", "lo": lo, "hi": hi}
        n = sum(1 for c in range(lo, hi) if not 0xD800 <= c <= 0xDFFF) * 2
        shard.evaluations += n
        shard.nontrivial_by_construction += n
        shard.classes["code-point-sweep-literals"] += n
        f = examine(case)
        if f:
            shard.fail(f["bucket"], case, f, size=hi - lo)
    if spec.get("sweep"):
        shard.exhaustive["str()-of-single-character-literals"] = (
            "every Unicode scalar value as a name and as a comparison literal" if tier == "thorough" else
            "U+0000-U+07FF and range edges as a name and as a comparison literal")

    def body(r):
        names = ["a", "b", "c"] + [r.choice(NAMES) for _ in range(2)]
        doc = diff.make_doc(r, tier, names=names, falsy_bias=0.25, wide_p=0.01)
        use_probes = r.random() < 0.25
        registry = None
        if use_probes:
            # (the probes' results depend on their FIRST argument only: always have some whose first parameter is
            # LogicalType, so that what a logical argument means is observable)
            chosen = list(dict.fromkeys(r.sample(sorted(k for k in C10REG if k.startswith("p")), 4) + [r.choice(["pl_l", "pl_v", "plv_l", "pll_l"])])) + ["length", "count"]
            registry = {k: C10REG[k] for k in chosen}
        dn, ds, dnum = Q.pools(doc)
        # float literals with many significant digits (their text form is the subject of this property)
        long_floats = [round(r.uniform(-1e4, 1e4), r.randint(3, 12)) for _ in range(2)] + [r.random() * 10 ** r.randint(-9, 15)]
        g = Q.QGen(r, names=list(dict.fromkeys(dn))[:8] + names[:3], strings=list(dict.fromkeys(ds))[:6] + ["a", "'", "\\", "\n"],
                   registry=registry, numbers=dnum[:8] + long_floats, filters=True, max_filter_depth=2)
        g.doc = doc
        g.cheap_filters = V.count_nodes(doc) > 120     # cost bound: no quadratic embedded queries over wide values
        g.evalr = ev.Evaluator(registry)
        base = g.guided_query(doc, 0, 2, hit_p=0.9)
        segs = base[2]
        k = r.random()
        lparam = [n for n, f in (registry or {}).items() if "Logical" in f["params"] and f["ret"] != "Value"]
        if lparam and k < 0.6:
            # a call with a LogicalType parameter: logical expressions as function arguments
            first_l = [n for n in lparam if registry[n]["params"][0] == "Logical"]
            name = r.choice(first_l) if first_l and r.random() < 0.7 else r.choice(lparam)
            fn = registry[name]
            def neg_group():
                # a negated group of two simple existence tests as the whole argument: !(@.a || @.b), !(@.a && @.b)
                t1 = ["test", ["q", "@", [["child", [["name", r.choice(names[:3])]]]]]]
                t2 = ["test", ["q", "@", [["child", [["name", r.choice(names[:3])]]]]]]
                return ["not", ["paren", [r.choice(["or", "and"]), [t1, t2]]]]
            call = ["call", name, [g.argument(p, 1, 2) if p != "Logical" else
                                   (neg_group() if r.random() < 0.3 else force_grouping(g, r) if r.random() < 0.6 else g.argument(p, 1, 2))
                                   for p in fn["params"]]]
            call[2] = [a[1] if a and a[0] == "test" else a for a in call[2]]
            segs = segs + [["child", [["filter", ["test", call] if r.random() < 0.7 else ["not", ["test", call]]]]]]
        elif k < 0.5:
            nodes = ev.Evaluator(registry).query(["q", "$", Q.strip_hints(segs)], doc)
            conts = [v for _, v in nodes if isinstance(v, (dict, list)) and v]
            if conts:
                tgt = r.choice(conts)
                g.ctx = list(tgt.values()) if isinstance(tgt, dict) else list(tgt)
            segs = segs + [["child", [["filter", force_grouping(g, r)]]]]
            g.ctx = None
        elif k < 0.85:
            seg = diff.guided_filter_segment(r, g, segs, doc, registry=registry)
            segs = segs + [seg]
        ast = ["q", "$", segs]
        if diff.EXCLUDE_R and diff.arg_starts_with_not_or_paren(ast):
            shard.excluded["R:function-argument-starting-with-!-or-("] += 1
            return
        rd = Q.Renderer(r, 0.1)
        text = rd.query(ast)
        plain = Q.strip_hints(ast)
        res = abnf.classify(text)
        if res.verdict == abnf.DISPUTED:
            shard.notes["disputed"] += 1
            return
        if res.verdict != abnf.VALID or res.ast != plain or typecheck.check(plain, registry) is not None:
            from vlib.runner import HarnessError
            raise HarnessError(f"generator/parser disagreement on {text!r}: {res!r} / {typecheck.check(plain, registry)}")
        docs = [doc]
        for _ in range(3 if tier == "quick" else 7):
            docs.append(diff.make_doc(r, tier, names=names, falsy_bias=0.25, wide_p=0.0))
        for _ in range(3 if tier == "quick" else 5):
            docs.append(doc_for_query(r, [plain]))
        case = {"q": text, "docs": docs}
        amb = r.choice(lib.AMBIENTS) if r.random() < 0.35 else "default"
        if amb != "default":
            case["ambient"] = amb
        if use_probes:
            case["registry"] = "probes"
        feats = Q.features(plain)
        nops = sum(1 for x in Q.walk(plain) if x and x[0] in ("and", "or", "not"))
        compound_paren = any(x and x[0] == "paren" and x[1][0] in ("and", "or", "cmp", "not") for x in Q.walk(plain))
        nt = nops >= 2 or compound_paren
        # reference AST comparison: directs a focused search
        st, cq = lib.compile_(text, c10env() if use_probes else None)
        if st == "ok":
            try:
                r1 = abnf.classify(str(cq))
            except Exception:  # noqa: BLE001 - examine reports it
                r1 = None
            if r1 is not None and r1.verdict == abnf.VALID and norm(r1.ast) != norm(plain):
                shard.notes["normalised-ast-differs"] += 1
                for _ in range(30):
                    docs.append(doc_for_query(r, [plain, r1.ast]))
                for _ in range(10):
                    docs.append(diff.make_doc(r, tier, names=names, falsy_bias=0.4, wide_p=0.0))
        shard.case(key=text, nontrivial=nt, classes=set(feats) | ({"probe-registry"} if use_probes else set())
                   | ({"compound-paren"} if compound_paren else set()) | {"ambient:" + amb}
                   | ({"float-literal-7+-digits"} if any(x and x[0] == "lit" and len(x) > 1 and isinstance(x[1], float) and len(repr(x[1]).replace("-", "").replace(".", "")) >= 7 for x in Q.walk(plain)) else set()), sample={"q": text, "str": str(cq) if st == "ok" else None})
        f = examine(case)
        if f:
            shard.fail(f["bucket"], case, f, size=len(text))

    drive(rng(), spec["n"], spec["seed"], body)


def minimise(case, failure, tier):
    from vlib import shrink
    bucket = failure["bucket"]
    if case.get("kind") == "sweep":
        for cp in range(case["lo"], case["hi"]):
            f = examine(dict(case, lo=cp, hi=cp + 1))
            if f and f["bucket"] == bucket:
                return dict(case, lo=cp, hi=cp + 1), f
        return case, failure
    registry = C10REG if case.get("registry") == "probes" else None
    cur = dict(case)
    if "doc" in failure:
        cur["docs"] = [failure["doc"]]

    def ok(t):
        res = abnf.classify(t)
        if res.verdict != abnf.VALID or typecheck.check(res.ast, registry) is not None:
            return False
        if diff.EXCLUDE_R and diff.arg_starts_with_not_or_paren(res.ast):
            return False
        f = examine(dict(cur, q=t))
        return f is not None and f["bucket"] == bucket

    if not ok(cur["q"]):
        cur = dict(case)
    t = shrink.shrink_text(cur["q"], ok, shrink.Budget(2500))
    cur["q"] = t
    if len(cur["docs"]) == 1:
        d = shrink.shrink_json(cur["docs"][0], lambda d: (examine(dict(cur, docs=[d])) or {}).get("bucket") == bucket,
                               shrink.Budget(800))
        cur["docs"] = [d]
    return cur, examine(cur) or failure


def signature(case, failure):
    if case.get("kind") == "sweep":
        return f"C12:{failure['bucket']}:code-point-sweep"
    return f"C12:{failure['bucket']}:{diff.shape(case['q'])}"
