"""C16 Lazy result iterators are independent under any interleaving or threading."""
from __future__ import annotations

import sys
import threading

from vlib import diff, lib
from vlib.gen import queries as Q
from vlib.hyp import drive, rng
from vlib.ref import evaluate as ev
from vlib.runner import h64

PROPERTY = "C16"
RULE = ("cases = (k <= 3 result iterators, schedule of next() calls): iterators obtained from the same compiled "
        "query, from separately compiled queries on the same environment, or from different environments, over the "
        "same or different values, with queries containing filters, nested filters and descendant segments; for "
        "inputs whose solitary runs need <= 9 next() calls in total (StopIteration included) every complete "
        "interleaving is enumerated and the prefix property is checked after every step, plus, for every iterator "
        "and every prefix length, a schedule that abandons (closes) that iterator there while the others run to "
        "completion; larger inputs get Hypothesis-drawn schedules; a thread part advances distinct iterators and "
        "compiles/evaluates on one shared environment from 8 threads under a 1 microsecond switch interval; oracle = "
        "each iterator yields exactly (a prefix of) its solitary run, which itself equals the reference nodelist; "
        "non-trivial = >= 2 iterators with non-empty results, each advanced between advances of another; distinct by "
        "(queries, documents, schedule)")
ASSUMPTIONS = ["one iterator is never advanced from two threads at once (a CPython generator restriction, not the library's)",
               "the thread schedule is owned by the OS: a failure there is real but not replayable by seed; silence is weak evidence"]
TECHNIQUE = "exhaustive interleaving enumeration per small input + Hypothesis-drawn schedules + stress threads; oracle = solitary run and reference evaluator"
LEVEL_TEXT = ("For small inputs all interleavings of next() calls over up to three live iterators (and all abandonment "
              "points) are enumerated exhaustively; larger inputs and thread schedules are sampled. Each iterator must "
              "reproduce its solitary run.")
LEVEL_NOTE = "Trusted: reference evaluator for the solitary run. Exhaustive only per input and only for interleavings of at most 9 steps."

NAMES = ["a", "b", "c"]
_ENVS = {}


def get_env(name):
    import jsonpath_rfc9535 as jp

    if name not in _ENVS:
        _ENVS[name] = jp.DEFAULT_ENV if name == "default" else jp.JSONPathEnvironment()
    return _ENVS[name]


def make_iters(case):
    """Fresh iterators for a case; compiled queries are shared where the case says so."""
    compiled = {}
    its = []
    for spec in case["iters"]:
        key = spec.get("share")
        env = get_env(spec.get("env", "default"))
        if key is not None and key in compiled:
            cq = compiled[key]
        else:
            cq = env.compile(spec["q"])
            if key is not None:
                compiled[key] = cq
        its.append(iter(cq.finditer(case["docs"][spec["doc"]])))
    return its


def solitary(case):
    out = []
    for spec in case["iters"]:
        out.append(ev.find(spec["ast"], case["docs"][spec["doc"]]))
    return out


def run_schedule(case, schedule, close_at=None):
    """Advance iterators per schedule; return failure or None. close_at = (iterator, step index) abandons it."""
    sol = solitary(case)
    try:
        its = make_iters(case)
    except Exception as e:  # noqa: BLE001
        info = lib.exc_info(e)
        return fail(f"compile-raised:{info['type']}", f"compile raised {info['type']}: {info['str']}", None, info)
    pos = [0] * len(its)
    done = [False] * len(its)
    for step, i in enumerate(schedule):
        if close_at is not None and close_at[1] == step:
            j = close_at[0]
            try:
                close = getattr(its[j], "close", None)
                if close:
                    close()
            except Exception as e:  # noqa: BLE001
                return fail("close-raised", f"closing iterator {j} raised {type(e).__name__}", None, repr(e))
            done[j] = True
            its[j] = None
        if done[i]:
            continue
        try:
            node = next(its[i])
        except StopIteration:
            done[i] = True
            if pos[i] != len(sol[i]):
                return fail("ended-early", f"iterator {i} ({case['iters'][i]['q']!r}) stopped after {pos[i]} of {len(sol[i])} nodes "
                            f"under schedule {schedule}", len(sol[i]), pos[i])
            continue
        except Exception as e:  # noqa: BLE001
            info = lib.exc_info(e)
            return fail(f"next-raised:{info['type']}", f"next() on iterator {i} raised {info['type']}: {info['str']} "
                        f"under schedule {schedule}", None, info)
        if pos[i] >= len(sol[i]):
            return fail("extra-node", f"iterator {i} ({case['iters'][i]['q']!r}) yielded more than its solitary run "
                        f"under schedule {schedule}", len(sol[i]), pos[i] + 1)
        eloc, eval_ = sol[i][pos[i]]
        if tuple(node.location) != tuple(eloc) or node.value is not eval_:
            return fail("wrong-node", f"iterator {i} ({case['iters'][i]['q']!r}) yielded {tuple(node.location)!r} at position "
                        f"{pos[i]}, its solitary run has {tuple(eloc)!r} (schedule {schedule})", list(eloc), list(node.location))
        pos[i] += 1
    return None


def fail(bucket, what, expected, observed):
    return {"bucket": bucket, "what": what, "expected": expected, "observed": observed}


def all_interleavings(counts):
    """Every complete interleaving: sequences containing index i exactly counts[i] times."""
    out = []

    def rec(prefix, left):
        if not any(left):
            out.append(list(prefix))
            return
        for i, c in enumerate(left):
            if c:
                left[i] -= 1
                prefix.append(i)
                rec(prefix, left)
                prefix.pop()
                left[i] += 1

    rec([], list(counts))
    return out


def examine(case):
    if case.get("kind") == "threads":
        return examine_threads(case)
    if "schedule" in case:
        return run_schedule(case, case["schedule"], tuple(case["close_at"]) if case.get("close_at") else None)
    # enumerate
    sol = solitary(case)
    counts = [len(s) + 1 for s in sol]
    for sched in all_interleavings(counts):
        f = run_schedule(case, sched)
        if f:
            f["schedule"] = sched
            return f
    rr = round_robin(counts)
    for j, c in enumerate(counts):
        for p in range(c):
            # abandon iterator j after p advances: place the close at the step of its (p+1)-th turn
            seen = 0
            at = None
            for step, i in enumerate(rr):
                if i == j:
                    if seen == p:
                        at = step
                        break
                    seen += 1
            if at is None:
                continue
            f = run_schedule(case, rr, (j, at))
            if f:
                f["schedule"] = rr
                f["close_at"] = [j, at]
                return f
    return None


def round_robin(counts):
    left = list(counts)
    out = []
    while any(left):
        for i in range(len(left)):
            if left[i]:
                out.append(i)
                left[i] -= 1
    return out


def examine_threads(case):
    old = sys.getswitchinterval()
    jobs = case["jobs"]
    if case.get("literals"):
        return examine_literal_threads(case)
    if case.get("typed"):
        return examine_typed_compile_threads(case)
    ndocs = len(case["docs"])
    # expected[k][d]: job k applied to document d (threads spread the shared compiled queries over all documents)
    expected_all = [[ev.find(j["ast"], case["docs"][d]) for d in range(ndocs)] for j in jobs]
    expected = [expected_all[k][j["doc"]] for k, j in enumerate(jobs)]
    env = get_env("threads-shared")
    errors = []
    barrier = threading.Barrier(8)
    if case.get("fresh_env"):
        # an environment nobody has used yet: its very first compilations (and first uses of its functions) are
        # made by all threads at once
        import jsonpath_rfc9535 as jp
        expected_str = [str(env.compile(j["q"])) for j in jobs]
        env = jp.JSONPathEnvironment()
        shared = {}
    else:
        # half of the jobs use one compiled query object shared by all threads (each thread still advances its own
        # iterator); the other half compile concurrently on the shared environment
        shared = {i: env.compile(j["q"]) for i, j in enumerate(jobs) if i % 2 == 0}
        # str() of a compiled query is part of its behaviour: the text each thread gets for a shared query (first
        # serialisation included) must be the one a separately compiled copy gives sequentially
        expected_str = [str(env.compile(j["q"])) for j in jobs]

    def worker(tid):
        try:
            barrier.wait()
            for rep in range(case.get("reps", 3)):
                for k in range(tid % len(jobs), len(jobs) * 2, 1):
                    j = jobs[k % len(jobs)]
                    cq = shared.get(k % len(jobs))
                    d = j["doc"]
                    if cq is None:
                        cq = env.compile(j["q"])
                    else:
                        d = (tid + rep) % ndocs   # the same compiled query on different documents at the same time
                    text = str(cq)
                    if text != expected_str[k % len(jobs)]:
                        errors.append((tid, j["q"], expected_str[k % len(jobs)], text))
                        return
                    it = iter(cq.finditer(case["docs"][d]))
                    got = []
                    for node in it:
                        got.append((tuple(node.location), node.value))
                    if not ev.same_nodelist(expected_all[k % len(jobs)][d], got):
                        errors.append((tid, j["q"], ev.show_nodes(expected_all[k % len(jobs)][d]), ev.show_nodes(got)))
                        return
        except Exception as e:  # noqa: BLE001
            errors.append((tid, "exception", type(e).__name__, str(e)[:200]))

    sys.setswitchinterval(1e-6)
    try:
        ts = [threading.Thread(target=worker, args=(t,)) for t in range(8)]
        for t in ts:
            t.start()
        for t in ts:
            t.join()
    finally:
        sys.setswitchinterval(old)
    if errors:
        e = errors[0]
        return fail("threads:" + ("exception:" + str(e[2]) if e[1] == "exception" else "wrong-result"),
                    f"thread {e[0]}: concurrent compile+evaluate of {e[1]!r} on a shared environment differs from the sequential result",
                    e[2], e[3])
    return None


def examine_literal_threads(case):
    """Threads compile (on one shared environment) queries whose string literals use both quote styles and many
    escapes; every compile must succeed and decode exactly as it does sequentially."""
    old = sys.getswitchinterval()
    env = get_env("threads-shared")
    lits = case["literals"]          # [(literal text, decoded)]
    errors = []
    barrier = threading.Barrier(8)

    def worker(tid):
        try:
            barrier.wait()
            for rep in range(case.get("reps", 3)):
                for k in range(len(lits)):
                    text, decoded = lits[(k + tid) % len(lits)]
                    try:
                        cq = env.compile("$[" + text + "]")
                    except Exception as e:  # noqa: BLE001
                        errors.append((tid, text[:60], "compiles", f"{type(e).__name__}: {e}"[:160]))
                        return
                    got = [tuple(n.location) for n in cq.find({decoded: 1, "other": 2})]
                    if got != [(decoded,)]:
                        errors.append((tid, text[:60], [decoded], repr(got)[:160]))
                        return
        except Exception as e:  # noqa: BLE001
            errors.append((tid, "exception", type(e).__name__, str(e)[:200]))

    sys.setswitchinterval(1e-6)
    try:
        ts = [threading.Thread(target=worker, args=(t,)) for t in range(8)]
        for t in ts:
            t.start()
        for t in ts:
            t.join()
    finally:
        sys.setswitchinterval(old)
    if errors:
        e = errors[0]
        return fail("threads:literal-compile", f"thread {e[0]}: compiling the literal {e[1]!r}... concurrently on a shared environment "
                    f"gives {e[3]}, sequentially it denotes {e[2]!r}", e[2], e[3])
    return None


def examine_typed_compile_threads(case):
    """Threads compile, on one shared environment with typed functions registered, queries whose validity depends on
    the declared parameter types (parenthesised / negated arguments included); every verdict must be the sequential one."""
    from checks import c10
    old = sys.getswitchinterval()
    env = c10.lib_env()
    items = case["typed"]          # [(query text, expected "ok" | "err")]
    errors = []
    barrier = threading.Barrier(8)

    def worker(tid):
        try:
            barrier.wait()
            for rep in range(case.get("reps", 4)):
                for k in range(len(items)):
                    q, want = items[(k + tid * 3) % len(items)]
                    try:
                        env.compile(q)
                        got = "ok"
                    except Exception as e:  # noqa: BLE001
                        from jsonpath_rfc9535 import JSONPathError
                        got = "err" if isinstance(e, JSONPathError) else "exception:" + type(e).__name__
                    if got != want:
                        errors.append((tid, q, want, got))
                        return
        except Exception as e:  # noqa: BLE001
            errors.append((tid, "exception", type(e).__name__, str(e)[:200]))

    sys.setswitchinterval(1e-6)
    try:
        ts = [threading.Thread(target=worker, args=(t,)) for t in range(8)]
        for t in ts:
            t.start()
        for t in ts:
            t.join()
    finally:
        sys.setswitchinterval(old)
    if errors:
        e = errors[0]
        return fail("threads:typed-compile", f"thread {e[0]}: compile({e[1]!r}) concurrently on a shared environment gives {e[3]}, "
                    f"sequentially (and by the type rules) it is {e[2]}", e[2], e[3])
    return None


def plan(tier, seed):
    if tier == "quick":
        return [{"n": 250, "threads": 10} for _ in range(16)]
    return [{"n": 3000, "threads": 125} for _ in range(16)]


def gen_wide_case(r):
    """Two documents that differ in what '$' refers to, each with a wide container (24-70 children) under a filter that
    compares the children with a '$' query; two or three iterators from ONE compiled query."""
    from vlib.ref import abnf
    n = r.choice([23, 24, 25, 32, 40, 64, 70])
    key = r.choice(["t", "limit", "k"])
    col = r.choice([None, "a", "n"])
    docs = []
    for _ in range(2):
        t = r.choice([0, 1, 5, 10, 20, 3.5, "b", None, True])
        items = [(r.randrange(0, 30) if r.random() < 0.8 else r.choice(["a", "c", None, True, 2.5])) for _ in range(n)]
        if col:
            items = [{col: v} for v in items]
        docs.append({key: t, "items": items} if r.random() < 0.8 else {"items": items, key: t})
    left = "@" + ("." + col if col else "")
    op = r.choice([">", "<", "==", "!=", ">=", "<="])
    q = r.choice([f"$.items[?{left} {op} $.{key}]", f"$.items[?$.{key} {op} {left}]", f"$..[?{left} {op} $.{key}]"])
    ast = abnf.parse(q)
    k = r.choice([2, 2, 3])
    iters = [{"q": q, "ast": ast, "doc": i % 2, "share": "s0", "env": "default"} for i in range(k)]
    return {"iters": iters, "docs": docs}


def gen_iter_case(r, shard, tier):
    if r.random() < 0.12:
        return gen_wide_case(r)
    ndocs = r.choice([1, 1, 2])
    docs = [diff.make_doc(r, "quick", names=NAMES, falsy_bias=0.15) for _ in range(ndocs)]
    k = r.choice([2, 2, 3])
    iters = []
    mode = r.choice(["same-compiled", "same-env", "different-envs", "mixed"])
    base = None
    for i in range(k):
        d = r.randrange(ndocs)
        if base is not None and mode in ("same-compiled",) or (mode == "mixed" and base is not None and r.random() < 0.5):
            spec = dict(base, doc=d)
        else:
            ast, text, _ = diff.make_query(r, shard, filters=True, names=NAMES, doc=docs[d], min_segs=1, max_segs=3,
                                           max_filter_depth=2, blank_p=0.0)
            spec = {"q": text, "ast": ast, "doc": d, "share": f"s{i}" if mode != "same-compiled" else "s0",
                    "env": "default" if mode in ("same-compiled", "same-env") else r.choice(["default", "e1", "e2"])}
            if base is None:
                base = spec
        iters.append(spec)
    return {"iters": iters, "docs": docs}


def run_shard(spec, shard):
    tier = spec["tier"]

    def body(r):
        case = gen_iter_case(r, shard, tier)
        sol = solitary(case)
        counts = [len(s) + 1 for s in sol]
        feats = set()
        for it in case["iters"]:
            feats |= Q.features(it["ast"]) & {"filter", "descendant", "call"}
            if Q.filter_depth(it["ast"]) >= 2:
                feats.add("nested-filter")
        nonempty = sum(1 for s in sol if s) >= 2
        if sum(counts) <= 9:
            n_inter = len(all_interleavings(counts))
            shard.case(key=(case["iters"], case["docs"]), nontrivial=nonempty, n=n_inter,
                       classes={"enumerated"} | feats | {"k=%d" % len(counts)},
                       sample={"queries": [i["q"] for i in case["iters"]], "docs": case["docs"], "solitary_lengths": counts,
                               "interleavings": n_inter})
            shard.classes["interleavings-enumerated"] += n_inter - 1
            shard.sets["inputs-enumerated-exhaustively"].add(h64((case["iters"], case["docs"])))
            if nonempty:
                shard.nontrivial_by_construction += 0
            f = examine(case)
            if f:
                c2 = dict(case, schedule=f.get("schedule"))
                if "close_at" in f:
                    c2["close_at"] = f["close_at"]
                shard.fail(f["bucket"], c2, f)
        else:
            total = sum(counts)
            for _ in range(3):
                left = list(counts)
                sched = []
                while any(left):
                    i = r.choice([i for i, c in enumerate(left) if c])
                    # sometimes stop an iterator early (abandon)
                    left[i] -= 1
                    sched.append(i)
                if r.random() < 0.4:
                    sched = sched[: r.randrange(1, len(sched) + 1)]
                close_at = [r.randrange(len(counts)), r.randrange(len(sched))] if r.random() < 0.3 else None
                c2 = dict(case, schedule=sched)
                if close_at:
                    c2["close_at"] = close_at
                alternations = sum(1 for a, b in zip(sched, sched[1:]) if a != b)
                shard.case(key=(case["iters"], case["docs"], sched, close_at), nontrivial=nonempty and alternations >= 2,
                           classes={"sampled-schedule"} | feats, sample=None)
                f = examine(c2)
                if f:
                    shard.fail(f["bucket"], c2, f)

    drive(rng(), spec["n"], spec["seed"], body)

    def tbody(r):
        docs = [diff.make_doc(r, "quick", names=NAMES, falsy_bias=0.15) for _ in range(2)]
        jobs = []
        for _ in range(4):
            d = r.randrange(2)
            ast, text, _ = diff.make_query(r, shard, filters=True, names=NAMES, doc=docs[d], min_segs=1, max_segs=3, blank_p=0.0)
            jobs.append({"q": text, "ast": ast, "doc": d})
        case = {"kind": "threads", "jobs": jobs, "docs": docs, "reps": 4}
        shard.case(key=(jobs, docs), nontrivial=True, classes={"thread-round"}, sample=None)
        f = examine(case)
        if f:
            shard.fail(f["bucket"], case, f)

    drive(rng(), spec["threads"], spec["seed"] + 1, tbody)

    def rbody(r):
        # function-call heavy jobs: every thread evaluates match()/search()/length()/count() filters with
        # *different* arguments on the shared environment (state kept inside a function object would race)
        from vlib.ref import abnf
        words = ["", "a", "ab", "abc", "b", "ba", "abab", "c", "xay", "0", "a1", "\n", "aa", "bb", "cab"]
        doc = [r.choice(words) for _ in range(r.randrange(12, 30))] + [1, None, ["a"]]
        pats = r.sample(["a.*", "[ab]+", ".*b", "a|b", "(ab)*", "[^a]*", "a?b?c?", ".", "b.*a", "[a-c]{2}", "\\\\p{L}+", "a"], 4)
        jobs = []
        for i, pat in enumerate(pats):
            q = "$[?%s(@, '%s')]" % (r.choice(["match", "search"]), pat)
            jobs.append({"q": q, "ast": abnf.parse(q), "doc": 0})
        q = "$[?length(@) == %d]" % r.randrange(0, 4)
        jobs.append({"q": q, "ast": abnf.parse(q), "doc": 0})
        case = {"kind": "threads", "jobs": jobs, "docs": [doc], "reps": 6}
        if r.random() < 0.5:
            case["fresh_env"] = True
            case["reps"] = 1
        shard.case(key=(jobs, doc, case.get("fresh_env")), nontrivial=True,
                   classes={"thread-round", "thread-round:function-calls"} | ({"thread-round:fresh-environment"} if case.get("fresh_env") else set()), sample=None)
        f = examine(case)
        if f:
            shard.fail(f["bucket"], case, f)

    drive(rng(), max(3, spec["threads"] * 2 // 3), spec["seed"] + 2, rbody)

    def ebody(r):
        # every thread evaluates comparisons between the SAME large containers of one shared document at the same
        # time (the comparison of two containers takes long enough for threads to overlap inside it)
        from vlib.ref import abnf
        n = r.choice([3000, 20000, 60000])
        leaf = r.choice([0, "x", None, 1.5])
        shape = r.choice(["flat", "rows", "nested"])

        def big(last):
            if shape == "flat":
                return [leaf] * n + [last]
            if shape == "rows":
                return [{"k": leaf, "j": [leaf]} for _ in range(n // 4)] + [{"k": last, "j": [leaf]}]
            v = [last]
            for _ in range(40):
                v = [[leaf] * (n // 40), v]
            return v
        doc = {"a": big(1), "b": [big(2)], "c": [big(1)], "d": [big(1), big(2), big(True)]}
        jobs = []
        for q in r.sample(["$.b[?@ == $.a]", "$.b[?@ != $.a]", "$.c[?@ == $.a]", "$.c[?@ != $.a]", "$.d[?@ == $.a]", "$.d[?$.a != @]",
                           "$.b[?@ <= $.a]", "$.c[?@ >= $.a]", "$.d[?@ == $.b[0]]"], 3):
            jobs.append({"q": q, "ast": abnf.parse(q), "doc": 0})
        case = {"kind": "threads", "jobs": jobs, "docs": [doc], "reps": 2}
        shard.case(key=(n, shape, repr(leaf), tuple(j["q"] for j in jobs)), nontrivial=True,
                   classes={"thread-round", "thread-round:same-containers-compared"}, sample={"container-comparison": [j["q"] for j in jobs], "n": n, "shape": shape})
        f = examine(case)
        if f:
            shard.fail(f["bucket"], case, f)

    drive(rng(), max(2, spec["threads"] // 3), spec["seed"] + 3, ebody)

    def lbody(r):
        lits = []
        for _ in range(6):
            quote = r.choice("'\"")
            n = r.choice([3, 20, 200, 1500])
            parts, dec = [], []
            for _ in range(n):
                c = r.choice(["a", quote, "\\", "\n", "\u00e9", "\U0001F600", "'" if quote == '"' else '"', "/", "b"])
                parts.append(Q.spell_char(c, quote, r))
                dec.append(c)
            lits.append((quote + "".join(parts) + quote, "".join(dec)))
        case = {"kind": "threads", "jobs": [], "docs": [], "literals": lits, "reps": 2}
        shard.case(key=lits, nontrivial=True, classes={"thread-round", "thread-round:literal-compile"}, sample=None)
        f = examine(case)
        if f:
            shard.fail(f["bucket"], case, f)

    drive(rng(), max(2, spec["threads"] // 3), spec["seed"] + 4, lbody)

    def cbody(r):
        from checks import c10
        from vlib.ref import abnf, typecheck
        # calls whose only argument is a parenthesised / negated / bare query or call, for parameters of every type
        one = [n for n, (ps, _) in c10.SIGS.items() if len(ps) == 1]
        zero_n = [n for n, (ps, rt) in c10.SIGS.items() if not ps]
        items = []
        for _ in range(14):
            f = r.choice(one + ["count", "length", "value"])
            inner = r.choice(["@.a", "$", "@.*", r.choice(zero_n) + "()", r.choice(one) + "(@.a)", "1", "@.a == 1"])
            arg = r.choice(["%s", "(%s)", "((%s))", "!%s", "!(%s)", "( %s )"]) % inner
            ret = c10.REG[f]["ret"]
            q = "$[?%s(%s)%s]" % (f, arg, " == 1" if ret == "Value" else "")
            res = abnf.classify(q)
            if res.verdict == abnf.DISPUTED:
                continue
            ok = res.verdict == abnf.VALID and typecheck.check(res.ast, c10.REG) is None
            items.append((q, "ok" if ok else "err"))
        if len(items) < 4:
            return
        case = {"kind": "threads", "jobs": [], "docs": [], "typed": items, "reps": 4}
        shard.case(key=items, nontrivial=True, classes={"thread-round", "thread-round:typed-compile"}, sample={"typed": items[:4]})
        f = examine(case)
        if f:
            shard.fail(f["bucket"], case, f)

    drive(rng(), max(2, spec["threads"] // 2), spec["seed"] + 5, cbody)

    def dbody(r):
        # deeply nested but valid queries compiled by all threads at once on the shared environment (whatever the
        # parser counts or remembers while it descends must be per call)
        items = []
        for _ in range(6):
            k = r.randrange(4)
            d = r.choice([10, 25, 40, 60])
            if k == 0:
                q = "$[?" + "(" * d + "@.a" + ")" * d + "]"
            elif k == 1:
                q = "$[?" + "!(" * d + "@.a == 1" + ")" * d + "]"
            elif k == 2:
                n = r.choice([5, 12, 20])
                q = "$" + "[?@" * n + ".a" + "]" * n
            else:
                n = r.choice([5, 12, 20])
                q = "$[?" + "count(@[?" * n + "@.a" + "]) > 0" * n + "]"
            items.append((q, "ok"))
        items.append(("$[?(@.a]", "err"))
        items.append(("$[?count(@.a) > ]", "err"))
        case = {"kind": "threads", "jobs": [], "docs": [], "typed": items, "reps": 3}
        shard.case(key=items, nontrivial=True, classes={"thread-round", "thread-round:deep-compile"}, sample={"deep-compile": [q[:40] for q, _ in items[:3]]})
        f = examine(case)
        if f:
            shard.fail(f["bucket"], case, f)

    drive(rng(), max(2, spec["threads"] // 3), spec["seed"] + 6, dbody)


def minimise(case, failure, tier):
    return case, failure


def signature(case, failure):
    return f"C16:{failure['bucket']}"
