"""C04 Every string outside the RFC 9535 grammar is rejected by compile()."""
from __future__ import annotations

from vlib import accept, diff
from vlib.gen import mutate as M
from vlib.hyp import drive, rng
from vlib.ref import abnf

PROPERTY = "C04"
RULE = ("cases = strings the reference recogniser proves are NOT derivable from the RFC 9535 ABNF: one/two-edit "
        "mutants (delete/insert/replace/transpose/duplicate/case/blank, characters and tokens incl. near-miss "
        "tokens) of generated valid queries, short token sequences, arbitrary Unicode text; oracle = compile() "
        "raises a JSONPathError; non-trivial = a near miss (<= 2 edits from a VALID query); distinct by text. "
        "VALID and DISPUTED mutants are re-classified and not used here. The thorough tier adds four coverage-guided atheris campaigns (token dictionary, seeded and empty corpus) whose inputs are classified by the same reference inside the fuzz target.")
ASSUMPTIONS = ["vlib/ref/abnf.py transcribes RFC 9535 Appendix A and decides membership exactly",
               "DISPUTED inputs are excluded (blank inside singular-query brackets in comparisons, overflowing numbers)"]
TECHNIQUE = "Hypothesis mutation-based generation of near misses, plus atheris (libFuzzer) campaigns in the thorough tier; membership oracle = independent RFC 9535 ABNF recogniser"
LEVEL_TEXT = ("Every single/double-edit class of generated valid queries, token sequences and arbitrary text that the "
              "reference recogniser classifies INVALID must make compile() raise a JSONPathError. Sampled.")
LEVEL_NOTE = "Trusted: vlib/ref/abnf.py (exact set-valued recogniser; self-test against the repository's rejected-query vectors)."

examine = accept.examine_reject



def _with_interpreter_variants(specs, tier, n_small, extra=None):
    """The same shard body in child interpreters started with other flags / environment variables."""
    from vlib.runner import INTERPRETERS
    base = dict(extra or {})
    for name in INTERPRETERS:
        s = dict(base, n=n_small if tier == "quick" else n_small * 6, interp=name)
        specs.append(s)
    return specs


def plan(tier, seed):
    if tier == "quick":
        return _with_interpreter_variants([{"n": 800} for _ in range(16)], tier, 120)
    import os
    return _with_interpreter_variants([{"n": 8000} for _ in range(16)], tier, 120) + [
        {"mode": "atheris", "runs": int(os.environ.get("VERIF_ATHERIS_RUNS", "600000")), "corpus": "seeded" if i % 2 == 0 else "empty", "idx": i}
        for i in range(4)]


def run_shard(spec, shard):
    if spec.get("mode") == "atheris":
        return accept.run_atheris_grammar(spec, shard, examine, "accepted")
    def body(r):
        if r.random() < 0.25:
            # queries that call functions with LogicalType / NodesType parameters (the probe signatures of C10)
            from checks import c10
            chosen = r.sample(sorted(k for k in c10.REG if k.startswith("p")), 6) + ["length", "count"]
            ast, text, used = accept.base_query(r, shard, registry={k: c10.REG[k] for k in chosen})
            # damage inside a LogicalType argument: a literal or a bare ValueType call as an operand of && / || / !
            import re as _re
            lnames = [k for k in chosen if c10.REG[k]["params"] and c10.REG[k]["params"][0] == "Logical"]
            spots = [m.end() for m in _re.finditer(r"\b(" + "|".join(map(_re.escape, lnames)) + r")\(", text)] if lnames else []
            for at in spots[:2]:
                ins = r.choice(["1 && ", "!1 || ", "'x' || ", "null && ", "length(@.a) && ", "!length(@) || ", "true && ", "(1) || "])
                _one(shard, text[:at] + ins + text[at:], True, ["edit:operand-inside-logical-argument"])
            if not spots and lnames:
                nm = r.choice(lnames)
                arity = len(c10.REG[nm]["params"])
                if arity == 1:
                    for ins in r.sample(["1 && @.a", "!1", "@.a || 'x'", "!length(@.a)", "(@.a) && 2", "@.a && !null"], 2):
                        q = "$[?%s(%s)%s]" % (nm, ins, " == 1" if c10.REG[nm]["ret"] == "Value" else "")
                        _one(shard, q, True, ["edit:operand-inside-logical-argument"])
        else:
            ast, text, used = accept.base_query(r, shard)
        for _ in range(4):
            m, kinds = M.mutant(text, r)
            _one(shard, m, True, ["edit:" + k for k in kinds])
        _one(shard, M.token_sequence(r), False, ["token-sequence"])
        if r.random() < 0.5:
            _one(shard, M.garbage(r), False, ["garbage"])

    drive(rng(), spec["n"], spec["seed"], body)


def _one(shard, text, near, classes):
    v, _, res = accept.verdict(text)
    if v != abnf.INVALID:
        shard.notes["mutant-" + v] += 1
        return
    case = {"q": text}
    cl = set(classes) | {"rule:" + x for x in res.rules[:2]}
    shard.case(key=text, nontrivial=near, classes=cl, sample={"q": text, "reference_stops_at": res.far})
    f = examine(case)
    if f:
        shard.fail(f["bucket"], case, f, size=len(text))


def minimise(case, failure, tier):
    return accept.minimise_text(case, failure, examine, fields=1)


def signature(case, failure):
    return f"C04:{failure['bucket'].split(':')[0]}:{diff.shape(case['q'])}"
