"""C06 Comparison operators implement the RFC 9535 comparison table."""
from __future__ import annotations

import json

from vlib import lib, shrink
from vlib.gen import queries as Q
from vlib.hyp import drive, rng
from vlib.ref import evaluate as ev
from vlib.ref.evaluate import BUILTINS, VALUE
from vlib.runner import h64

PROPERTY = "C06"
RULE = ("cases = (left value, right value, operator, left producer, right producer): values of every JSON kind "
        "plus Nothing with deliberate near-equal pairs (1/1.0/true, 0/-0.0/false, \"\"/null, [1]/[true]/[1.0], "
        "objects differing in a bool-vs-number leaf or only in member order, strings sharing a prefix, non-BMP vs "
        "high-BMP strings, 2^53 neighbours) x six operators x the way each comparand is produced (literal for "
        "scalars, @-relative singular query, $-absolute singular query, value(), length(), an identity probe "
        "function, an empty query / function result that is Nothing); observation = whether "
        "$.items[?<lhs> <op> <rhs>] selects the single child; oracle = RFC 9535 table 11 in the reference; "
        "non-trivial = at least one side is not Nothing; distinct by (values, op, producers); the evidence also "
        "reports how many (kind,kind,op,producer,producer) cells were covered")
ASSUMPTIONS = ["vlib/ref/evaluate.py compare()/json_eq() implement RFC 9535 2.3.5.2.2 (self-tested against table 11 examples)",
               "numbers compare by exact numeric value of the int/float objects json.load produces"]
TECHNIQUE = "Hypothesis property-based testing over a kind x kind x operator x producer grid, oracle = RFC comparison table in the reference evaluator"
LEVEL_TEXT = ("Generated comparand pairs of every kind (with near-equal traps) x 6 operators x 9 producers (literal, relative, absolute, value(), id(), length(), nested, one step into the value by index or by name), each "
              "observed through a real filter and compared with the RFC table; thorough covers the whole "
              "kind x kind x op x producer grid with random values per cell. Sampled values.")
LEVEL_NOTE = "Trusted: reference compare(); probe function id() registered through the public function_extensions mapping."

OPS = ["==", "!=", "<", "<=", ">", ">="]
BIG = 2**53
VALUES = {
    "int": [0, 1, -1, 2, 10, BIG, BIG + 1, BIG - 1, -BIG, 42],
    "float": [0.0, -0.0, 1.0, -1.0, 1.5, 2.0, 0.1, 1e100, float(BIG), 9007199254740993.0, 10.0, 42.0, -2.5, 1e-7],
    "str": ["", "a", "b", "ab", "aa", "A", "1", "true", "null", "\uffff", "\U00010000", "\U0001F600", "\u00e9", "a\x00",
            "abc", "abd", "e\u0301", "\u1100\u1161", "\uac00"],
    "bool": [True, False],
    "null": [None],
    "arr": [[], [1], [True], [1.0], [0], [False], [None], [""], [[1]], [[True]], [1, 2], [2, 1], [1, [2, {"a": 1}]],
            [1, [2, {"a": True}]], ["a"], [[]], [{}]],
    "obj": [{}, {"a": 1}, {"a": True}, {"a": 1.0}, {"a": 0}, {"a": False}, {"a": None}, {"a": 1, "b": 2},
            {"b": 2, "a": 1}, {"a": [1]}, {"a": [True]}, {"a": {"b": 0}}, {"a": {"b": False}}, {"b": 1}, {"a": ""},
            {"b": None}, {"a": 1, "x": None}, {"a": 1, "y": None}, {"a": {"x": None}}, {"a": {"y": None}}, {"a": None, "b": None}],
}
KINDS = list(VALUES) + ["nothing"]
PRODUCERS = ["literal", "rel", "abs", "value", "id", "length", "nested", "into-index", "into-name"]
NOTHING_PRODUCERS = ["rel-missing", "abs-missing", "value-many", "length-nonsized", "id-missing"]

REGISTRY = dict(BUILTINS)
REGISTRY["id"] = {"params": [VALUE], "ret": VALUE, "impl": lambda v: v}


def lib_env():
    from jsonpath_rfc9535.function_extensions import ExpressionType, FilterFunction

    class Id(FilterFunction):
        arg_types = [ExpressionType.VALUE]
        return_type = ExpressionType.VALUE

        def __call__(self, v):
            return v

    return lib.make_env(functions={"id": Id()})


_ENV = None


def env():
    global _ENV
    if _ENV is None:
        _ENV = lib_env()
    return _ENV


def q_name(root, *names):
    return ["q", root, [["child", [["name", n]]] for n in names]]


def comparand(side, producer, value):
    """AST of a comparand that produces `value` (or Nothing) from the test document."""
    k = "l" if side == 0 else "r"
    K = k.upper()
    if producer == "literal":
        if isinstance(value, (int, float)) and not isinstance(value, bool):
            t = repr(value)
            return ["lit", Q.number_value(t), t]
        return ["lit", value]
    if producer == "rel":
        return q_name("@", k)
    if producer == "abs":
        return q_name("$", K)
    if producer == "value":
        return ["call", "value", [q_name("@", k)]]
    if producer == "id":
        return ["call", "id", [q_name("@", k)]]
    if producer == "length":
        return ["call", "length", [q_name("@", k)]]
    if producer == "nested":
        return ["q", "@", [["child", [["name", "w"]]], ["child", [["index", 0 if side == 0 else -1]]]]]
    if producer == "into-index":
        # one step *into* the value: an element of an array, nothing at all for a string, a number, an object ...
        return ["q", "@", [["child", [["name", k]]], ["child", [["index", 0 if side == 0 else -1]]]]]
    if producer == "into-name":
        return ["q", "$", [["child", [["name", K]]], ["child", [["name", "a"]]]]]
    if producer == "rel-missing":
        return q_name("@", "missing")
    if producer == "abs-missing":
        return q_name("$", "missing", k)
    if producer == "value-many":
        return ["call", "value", [["q", "@", [["child", [["wild"]]]]]]]
    if producer == "length-nonsized":
        return ["call", "length", [["lit", 1, "1"]]]
    if producer == "id-missing":
        return ["call", "id", [q_name("@", "missing")]]
    raise ValueError(producer)


def build(lv, rv, op, lp, rp):
    child = {"w": [lv if lp not in NOTHING_PRODUCERS else 0, rv if rp not in NOTHING_PRODUCERS else 0]}
    doc = {"items": [child]}
    if lp not in NOTHING_PRODUCERS:
        child["l"] = lv
        doc["L"] = lv
    if rp not in NOTHING_PRODUCERS:
        child["r"] = rv
        doc["R"] = rv
    ast = ["q", "$", [["child", [["name", "items"]]],
                      ["child", [["filter", ["cmp", op, comparand(0, lp, lv), comparand(1, rp, rv)]]]]]]
    return ast, doc


def kind_of(v):
    if isinstance(v, bool):
        return "bool"
    if v is None:
        return "null"
    if isinstance(v, int):
        return "int"
    if isinstance(v, float):
        return "float"
    if isinstance(v, str):
        return "str"
    return "arr" if isinstance(v, list) else "obj"


def examine(case):
    if case.get("kind") == "deep":
        return examine_deep(case)
    ast, doc, q = case["ast"], case["doc"], case["q"]
    expected = ev.Evaluator(REGISTRY).query(Q.strip_hints(ast), doc)
    status, got = lib.find(q, doc, env())
    if status == "err":
        return {"bucket": f"raised:{got['type']}:{got['frame']}", "what": f"{q} raised {got['type']}: {got['str']}",
                "expected": len(expected), "observed": got}
    if len(got) != len(expected):
        c = case.get("cell", ["?"] * 5)
        return {"bucket": f"table:{c[0]}:{c[1]}:{c[2]}",
                "what": f"{q} on {json.dumps(doc)[:160]}: comparison is {bool(got)}, RFC 9535 says {bool(expected)}",
                "expected": bool(expected), "observed": bool(got)}
    return None


def deep_pair(depth, leaf_l, leaf_r, kind):
    l, rr = leaf_l, leaf_r
    for i in range(depth):
        if kind == "arr" or (kind == "mix" and i % 2):
            l, rr = [l], [rr]
        else:
            l, rr = {"k": l}, {"k": rr}
    return l, rr


def examine_deep(case):
    """Deeply nested comparands: the answer must be right, or (beyond what the interpreter can recurse into) an
    exception - never a wrong answer.  Exceptions here are C13's business and only counted."""
    l, rr = deep_pair(case["depth"], case["leaf_l"], case["leaf_r"], case["shape"])
    doc = {"items": [{"l": l, "r": rr}]}
    q = "$.items[?@.l %s @.r]" % case["op"]
    want = ev.compare(case["leaf_l"], case["op"], case["leaf_r"]) if case["op"] in ("==", "!=") else \
        (ev.cmp_eq(case["leaf_l"], case["leaf_r"]) if case["op"] in ("<=", ">=") else False)
    status, got = lib.find(q, doc, env())
    if status == "err":
        return None
    if bool(got) != want:
        return {"bucket": f"table:deep:{case['op']}", "what": f"{q} on comparands nested {case['depth']} deep with leaves "
                f"{case['leaf_l']!r} / {case['leaf_r']!r}: comparison is {bool(got)}, RFC 9535 says {want}",
                "expected": want, "observed": bool(got)}
    return None


def plan(tier, seed):
    if tier == "quick":
        return [{"n": 1200, "grid": False} for _ in range(16)]
    return [{"n": 10000, "grid": True} for _ in range(16)]


TWINS = {"1": [True, 1.0, "1"], "0": [False, 0.0, -0.0, "0", None], "True": [1, 1.0, "true"], "False": [0, 0.0, "false", None],
         "None": [0, False, "", "null"], "''": [None, 0, False]}


def twin_leaf(r, v):
    """v with exactly one leaf replaced by a look-alike of another type (1 / true / 1.0, 0 / false / null, ...)."""
    import copy
    if isinstance(v, list) and v:
        i = r.randrange(len(v))
        return v[:i] + [twin_leaf(r, v[i])] + v[i + 1:]
    if isinstance(v, dict) and v:
        key = r.choice(list(v))
        return {kk: (twin_leaf(r, x) if kk == key else copy.deepcopy(x)) for kk, x in v.items()}
    if isinstance(v, float) and not isinstance(v, bool) and v in (0.0, 1.0):
        return r.choice(TWINS[repr(int(v))])
    if repr(v) in TWINS:
        return r.choice(TWINS[repr(v)])
    return v


def related(r, v):
    """A value that is 'almost' v: same number in another type, bool for 0/1, permuted object, ..."""
    k = kind_of(v)
    if k in ("arr", "obj") and r.random() < 0.35:
        return twin_leaf(r, v)
    opts = [v]
    if k in ("int", "float"):
        opts += [float(v) if k == "int" and abs(v) < 2**60 else v, int(v) if k == "float" and v == int(v) else v,
                 bool(v) if v in (0, 1) else v, v + 1, -v, str(v)]
    elif k == "bool":
        opts += [int(v), float(v), not v, str(v).lower()]
    elif k == "null":
        opts += ["", 0, False, "null", [], {}]
    elif k == "str":
        opts += [v + "a", v[:-1], v.upper(), [v], ""]
    elif k == "arr":
        opts += [[related(r, x) for x in v], v + [0], v[:-1], list(reversed(v)), {"a": v}, v + [None], [None] * len(v)]
    elif k == "obj":
        opts += [{kk: related(r, x) for kk, x in v.items()}, dict(reversed(list(v.items()))), {**v, "z": 0}, [v]]
        if v:
            # same size, one member renamed (value kept) / renamed and nulled / value nulled
            key = r.choice(list(v))
            other = r.choice([n for n in ("a", "b", "x", "y") if n not in v] or ["q"])
            opts += [{(other if kk == key else kk): x for kk, x in v.items()},
                     {(other if kk == key else kk): (None if kk == key else x) for kk, x in v.items()},
                     {kk: (None if kk == key else x) for kk, x in v.items()}]
    return r.choice(opts)


def repeated(r, x):
    """Two comparands built around ONE sub-object x occurring several times (programs build rows that way): the left
    holds the very same object at every occurrence; the right is equal to it except, possibly, at one occurrence."""
    import copy
    n = r.randint(2, 4)
    shape = r.choice(["arr", "obj", "nested"])
    j = r.randrange(n)
    other = related(r, x) if r.random() < 0.8 else copy.deepcopy(x)
    share_across = r.random() < 0.5

    def occ(i):
        if i == j:
            return other
        return x if share_across else copy.deepcopy(x)
    if shape == "arr":
        lv, rv = [x] * n, [occ(i) for i in range(n)]
    elif shape == "obj":
        keys = ["a", "b", "c", "d"][:n]
        lv, rv = {k: x for k in keys}, {k: occ(i) for i, k in enumerate(keys)}
    else:
        wrap = [lambda v: [v], lambda v: {"k": v}, lambda v: v, lambda v: [[v]]]
        lv, rv = [wrap[i](x) for i in range(n)], [wrap[i](occ(i)) for i in range(n)]
    return (lv, rv) if r.random() < 0.6 else (rv, lv)


def out_of_exact_range(v):
    """Number literals beyond +-(2^53-1) are outside the I-JSON exact range: a query need not keep their exact
    value (DESIGN.md section 3, DISPUTED f), so such numbers reach the comparison through the document only."""
    return isinstance(v, (int, float)) and not isinstance(v, bool) and abs(v) > 2**53 - 1 and abs(v) < 1e300


def run_shard(spec, shard):
    def one(r, lk, rk, op, lp, rp):
        lv = r.choice(VALUES[lk]) if lk != "nothing" else None
        if rk == "nothing":
            rv = None
        elif lk != "nothing" and r.random() < 0.5:
            rv = related(r, lv)
            if rp == "literal" and isinstance(rv, (list, dict)):
                rv = r.choice(VALUES[rk])
        else:
            rv = r.choice(VALUES[rk])
        shared = False
        if lk in ("arr", "obj") and rk != "nothing" and r.random() < 0.35:
            lv, rv = repeated(r, lv)
            shared = True
        if lk == "nothing":
            lp = r.choice(NOTHING_PRODUCERS)
        if rk == "nothing":
            rp = r.choice(NOTHING_PRODUCERS)
        if lp == "literal" and (isinstance(lv, (list, dict)) or out_of_exact_range(lv)):
            lp = "rel"
        if rp == "literal" and (isinstance(rv, (list, dict)) or out_of_exact_range(rv)):
            rp = "abs"
        ast, doc = build(lv, rv, op, lp, rp)
        text = Q.Renderer(r, 0.1).query(ast)
        lkk = "nothing" if lp in NOTHING_PRODUCERS else kind_of(lv)
        rkk = "nothing" if rp in NOTHING_PRODUCERS else kind_of(rv)
        cell = [lkk, rkk, op, lp, rp]
        case = {"q": text, "ast": ast, "doc": doc, "cell": cell}
        shard.sets["grid-cells(kind,kind,op,producer,producer)"].add(h64(cell))
        shard.sets["kind-pairs-x-op"].add(h64(cell[:3]))
        shard.case(key=(text, doc), nontrivial=not (lkk == "nothing" and rkk == "nothing"),
                   classes={"L:" + lkk, "R:" + rkk, "op:" + op, "prodL:" + lp, "prodR:" + rp} | ({"comparand-repeats-one-object"} if shared else set()),
                   sample={"q": text, "doc": doc})
        f = examine(case)
        if f:
            shard.fail(f["bucket"], case, f)

    def body(r):
        one(r, r.choice(KINDS), r.choice(KINDS), r.choice(OPS), r.choice(PRODUCERS), r.choice(PRODUCERS))

    if spec["grid"]:
        # the whole kind x kind x op x producer x producer grid, split over the shards, random values per cell
        import itertools

        cells = list(itertools.product(KINDS, KINDS, OPS, PRODUCERS, PRODUCERS))
        mine = cells[spec["shard"]::16]

        def gbody(r):
            for c in mine:
                one(r, *c)

        drive(rng(), 1, spec["seed"], gbody)
        shard.exhaustive["kind-x-kind-x-op-x-producer-grid"] = (
            f"{len(cells)} cells (8 kinds^2 x 6 ops x 9^2 producers), every cell visited with random values")
    drive(rng(), spec["n"], spec["seed"] + 7, body)

    if spec["shard"] == 0:
        leaves = [(1, True), (0, False), (1, 1.0), (0.0, False), (None, 0), ("", None), (1, 1), ([], {}), (2, 2.5), ("a", "a")]
        for depth in (50, 200, 400, 480, 500, 520, 700, 900, 1200, 1600):
            for shape in ("arr", "obj", "mix"):
                for ll, lr in leaves:
                    for op in ("==", "!=", "<=", "<"):
                        case = {"kind": "deep", "depth": depth, "shape": shape, "leaf_l": ll, "leaf_r": lr, "op": op}
                        shard.case(key=("deep", depth, shape, repr(ll), repr(lr), op), nontrivial=True,
                                   classes={"deep-comparands"}, sample=None)
                        f = examine(case)
                        if f:
                            shard.fail(f["bucket"], case, f)


def minimise(case, failure, tier):
    if case.get("kind") == "deep":
        return case, failure
    bucket = failure["bucket"]

    def ok(d):
        f = examine(dict(case, doc=d))
        return f is not None and f["bucket"] == bucket

    d = shrink.shrink_json(case["doc"], ok, shrink.Budget(500))
    c2 = dict(case, doc=d)
    return c2, examine(c2) or failure


def signature(case, failure):
    return f"C06:{failure['bucket']}"
