"""C03 Every valid RFC 9535 query is accepted by compile()."""
from __future__ import annotations

from vlib import accept, diff
from vlib.gen import mutate as M
from vlib.hyp import drive, rng

PROPERTY = "C03"
RULE = ("cases = query texts that the reference parser derives from the RFC 9535 ABNF and the reference type "
        "checker finds well-typed with the built-in functions (integers within +-(2^53-1)): (i) generated ASTs "
        "rendered over the whole lexical space (blank space at every S position, both quote styles, every escape "
        "form, shorthand/bracket notation, number spellings, non-ASCII and non-BMP shorthand names), (ii) one/two-"
        "edit mutants of those that are still VALID; non-trivial = the text uses at least one optional lexical form "
        "(blank, escape, double quotes, fraction/exponent, non-ASCII shorthand, parentheses) or is a still-valid "
        "mutant; distinct by text. DISPUTED texts are never used. The thorough tier adds four coverage-guided atheris campaigns (token dictionary, seeded and empty corpus) whose inputs are classified by the same reference inside the fuzz target.")
ASSUMPTIONS = ["vlib/ref/abnf.py transcribes RFC 9535 Appendix A; vlib/ref/typecheck.py section 2.4.3",
               "DISPUTED inputs (see DESIGN.md section 3) are excluded"]
TECHNIQUE = "Hypothesis grammar-based generation + mutation, plus atheris (libFuzzer) campaigns in the thorough tier; membership oracle = independent RFC 9535 ABNF recogniser and type checker"
LEVEL_TEXT = ("Grammar-derived valid queries over every lexical alternative plus still-valid near-miss mutants; each "
              "must compile. The reference recogniser decides membership exactly (set-valued, memoised). Sampled.")
LEVEL_NOTE = "Trusted: vlib/ref/abnf.py and typecheck.py (self-test + triangulation)."

examine = accept.examine_accept



def _with_interpreter_variants(specs, tier, n_small, extra=None):
    """The same shard body in child interpreters started with other flags / environment variables."""
    from vlib.runner import INTERPRETERS
    base = dict(extra or {})
    for name in INTERPRETERS:
        s = dict(base, n=n_small if tier == "quick" else n_small * 6, interp=name)
        specs.append(s)
    return specs


def plan(tier, seed):
    if tier == "quick":
        return _with_interpreter_variants([{"n": 800} for _ in range(16)], tier, 120)
    import os
    return _with_interpreter_variants([{"n": 15000} for _ in range(16)], tier, 120) + [
        {"mode": "atheris", "runs": int(os.environ.get("VERIF_ATHERIS_RUNS", "600000")), "corpus": "seeded" if i % 2 == 0 else "empty", "idx": i}
        for i in range(4)]


def run_shard(spec, shard):
    if spec.get("mode") == "atheris":
        return accept.run_atheris_grammar(spec, shard, examine, "refused")
    # One long-lived environment per shard also receives every rejected mutant and some garbage, so that
    # "accepted" is checked after hundreds of failed compilations on the same environment, not only on a
    # pristine one.
    from vlib import lib
    from vlib.gen import mutate
    shared = lib.make_env()

    def body(r):
        ast, text, used = accept.base_query(r, shard)
        forms = {u for u in used if ":" not in u}
        _one(shard, text, "generated", forms, shared)
        for _ in range(3):
            m, kinds = M.mutant(text, r)
            v, _, _ = accept.verdict(m)
            if v == "VALID-WELLTYPED" and m != text:
                _one(shard, m, "valid-mutant", {"mutant"} | set("edit:" + k for k in kinds), shared)
            elif v == "EXCLUDED-R":
                shard.excluded["R:function-argument-starting-with-!-or-("] += 1
            else:
                lib.compile_(m, shared)
                shard.notes["rejected-mutants-compiled-on-the-shared-environment"] += 1
        lib.compile_(mutate.token_sequence(r), shared)
        if r.random() < 0.15:
            lq = long_valid(r)
            v, _, _ = accept.verdict(lq)
            if v != "VALID-WELLTYPED":
                from vlib.runner import HarnessError
                raise HarnessError(f"long_valid produced a query the reference does not accept: {lq[:80]!r}... ({v})")
            _one(shard, lq, "long-or-deep", {"long-or-deep"}, None)
        # truncations leave brackets, parentheses, strings and calls open at the point of failure
        for _ in range(4):
            cut = r.randrange(1, len(text) + 1)
            lib.compile_(text[:cut] + r.choice(["", "]", ")", " ", "&&", "'"]), shared)
            shard.notes["truncations-compiled-on-the-shared-environment"] += 1
        # bracket-balanced damage (the lexer accepts it, the parser fails in the middle of a nested construct)
        opens = [i for i, c in enumerate(text) if c == "("] or [i for i, c in enumerate(text) if c in "[,"]
        for _ in range((12 if "(" in text else 4) if opens else 0):
            i = r.choice(opens)
            js = [j for j in range(i + 1, len(text)) if text[j] in "@$0123456789tfn*"]
            if js:
                j = js[0] if r.random() < 0.7 else r.choice(js)
                lib.compile_(text[:j] + r.choice(["&&", "==", "||", "<", ",", "!", ":"]) + text[j + 1:], shared)
                shard.notes["balanced-damage-compiled-on-the-shared-environment"] += 1

    drive(rng(), spec["n"], spec["seed"], body)


def long_valid(r):
    """Valid queries that are long or deeply nested: sizes around typical thresholds (64/128/256/...)."""
    k = r.choice([63, 64, 65, 100, 127, 128, 129, 130, 200, 255, 256, 257, 300])
    kind = r.randrange(12)
    if kind == 0:
        return "$" + r.choice([".a", "[0]", "[?(@.a)]", "[?@.a]", "..a", "[*]", "['a']", "[?(@.a == 1)]", "[?!(@.a)]"]) * k
    if kind == 1:
        return "$[" + ",".join([r.choice(["0", "'a'", "?@.a", "?(@.a)", "1:2", "*", "?@.a==1", "-1"])] * k) + "]"
    if kind == 2:
        sels = [r.choice(["0", "'a'", "?@.a", "?(@.b)", "1:2", "*", "?@.a==1 && (@.b)", "::2"]) for _ in range(k)]
        return "$[" + ",".join(sels) + "]"
    if kind == 3:
        term = r.choice(["@.a", "(@.a)", "@.a==1", "!(@.b)", "match(@.a,'x')", "(@.a || @.b)", "!@.c", "count(@.*)>1"])
        return "$[?" + r.choice([" && ", " || ", "&&", "||"]).join([term] * k) + "]"
    if kind == 4:
        d = r.choice([8, 16, 32, 48, 64, 100])
        return "$[?" + "(" * d + "@.a" + ")" * d + "]"
    if kind == 5:
        d = r.choice([8, 16, 32, 48, 64])
        return "$[?" + "!(" * d + "@.a" + ")" * d + "]"
    if kind == 6:
        d = r.choice([4, 8, 16, 32])
        return "$" + "[?@" * d + ".a" + "]" * d
    if kind == 7:
        n = r.choice([255, 256, 1000, 1024, 5000])
        return r.choice(["$['%s']", "$.%s", "$[?@.a=='%s']", '$["%s"]', "$..%s"]) % ("x" * n)
    if kind == 8:
        d = r.choice([4, 8, 16])
        return "$[?" + "length(" * d + "value(@..a)" + ")" * d + " == 1]"
    if kind == 9:
        return "$" + "".join(r.choice([".a", "[0]", "[?(@.a)]", "..b", "[*]", "[1:2]", "['c','d']"]) for _ in range(k))
    if kind == 10:
        return "$[?" + " || ".join("(@.a%d && (@.b || !(@.c == %d)))" % (i, i) for i in range(k // 2)) + "]"
    return "$" + " " * k + ".a" + "\n" * k + "[" + " " * k + "0" + "\t" * k + "]"


def _one(shard, text, origin, forms, shared=None):
    case = {"q": text}
    shard.case(key=text, nontrivial=bool(forms), classes={origin} | {"form:" + f for f in forms},
               sample={"q": text, "origin": origin})
    f = examine(case)
    if f:
        shard.fail(f["bucket"], case, f, size=len(text))
    elif shared is not None:
        from vlib import lib
        status, got = lib.compile_(text, shared)
        if status != "ok":
            f2 = {"bucket": f"refused-after-history:{got['type']}:{got['frame']}",
                  "what": f"valid query {text!r} compiles on a fresh environment but is refused on an environment that has "
                          f"compiled {shard.evaluations} queries before (many of them invalid): {got['type']}: {got['str']}",
                  "expected": "compile() returns", "observed": got}
            shard.fail(f2["bucket"], dict(case, history="shared-environment"), f2, size=len(text))


def minimise(case, failure, tier):
    if case.get("history"):
        return case, failure   # depends on the shard's history, not on the text alone
    return accept.minimise_text(case, failure, examine)


def signature(case, failure):
    if case.get("history"):
        return f"C03:{failure['bucket']}"
    return f"C03:{failure['bucket']}:{diff.shape(case['q'])}"
