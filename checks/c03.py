"""C03 Every valid RFC 9535 query is accepted by compile()."""
from __future__ import annotations

from vlib import accept, diff
from vlib.gen import mutate as M
from vlib.hyp import drive, rng

PROPERTY = "C03"
RULE = ("cases = query texts that the reference parser derives from the RFC 9535 ABNF and the reference type "
        "checker finds well-typed with the built-in functions (integers within +-(2^53-1)): (i) generated ASTs "
        "rendered over the whole lexical space (blank space at every S position, both quote styles, every escape "
        "form, shorthand/bracket notation, number spellings, non-ASCII and non-BMP shorthand names), (ii) one/two-"
        "edit mutants of those that are still VALID; non-trivial = the text uses at least one optional lexical form "
        "(blank, escape, double quotes, fraction/exponent, non-ASCII shorthand, parentheses) or is a still-valid "
        "mutant; distinct by text. DISPUTED texts are never used.")
ASSUMPTIONS = ["vlib/ref/abnf.py transcribes RFC 9535 Appendix A; vlib/ref/typecheck.py section 2.4.3",
               "DISPUTED inputs (see DESIGN.md section 3) are excluded"]
TECHNIQUE = "Hypothesis grammar-based generation + mutation, membership oracle = independent RFC 9535 ABNF recogniser and type checker"
LEVEL_TEXT = ("Grammar-derived valid queries over every lexical alternative plus still-valid near-miss mutants; each "
              "must compile. The reference recogniser decides membership exactly (set-valued, memoised). Sampled.")
LEVEL_NOTE = "Trusted: vlib/ref/abnf.py and typecheck.py (self-test + triangulation)."

examine = accept.examine_accept


def plan(tier, seed):
    if tier == "quick":
        return [{"n": 400} for _ in range(16)]
    return [{"n": 15000} for _ in range(16)]


def run_shard(spec, shard):
    def body(r):
        ast, text, used = accept.base_query(r, shard)
        forms = {u for u in used if ":" not in u}
        _one(shard, text, "generated", forms)
        for _ in range(2):
            m, kinds = M.mutant(text, r)
            v, _, _ = accept.verdict(m)
            if v == "VALID-WELLTYPED" and m != text:
                _one(shard, m, "valid-mutant", {"mutant"} | set("edit:" + k for k in kinds))
            elif v == "EXCLUDED-R":
                shard.excluded["R:function-argument-starting-with-!-or-("] += 1

    drive(rng(), spec["n"], spec["seed"], body)


def _one(shard, text, origin, forms):
    case = {"q": text}
    shard.case(key=text, nontrivial=bool(forms), classes={origin} | {"form:" + f for f in forms},
               sample={"q": text, "origin": origin})
    f = examine(case)
    if f:
        shard.fail(f["bucket"], case, f, size=len(text))


def minimise(case, failure, tier):
    return accept.minimise_text(case, failure, examine)


def signature(case, failure):
    return f"C03:{failure['bucket']}:{diff.shape(case['q'])}"
