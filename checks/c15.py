"""C15 All entry points agree: find, finditer, find_one, compile().apply, module-level."""
from __future__ import annotations

from vlib import accept, diff, lib, shrink
from vlib.gen import mutate as M
from vlib.gen import queries as Q
from vlib.hyp import drive, rng

PROPERTY = "C15"
RULE = ("cases = (query text, JSON value): valid generated queries (filters, descendants) on guided documents, "
        "invalid queries of every error class (syntax, type, name, index) and evaluation-time errors (descendant "
        "segments over data nested beyond max_recursion_depth); 14 call paths = module-level find/finditer/find_one, "
        "module compile() then find/apply/finditer/find_one, a fresh environment's find/finditer/find_one and its "
        "compile() then find/apply/finditer/find_one; oracle (metamorphic): every list-returning path gives the same "
        "nodes (location + identity of value) as list(finditer), find_one is the first of them or None, an invalid "
        "query raises the same exception class from every path, an evaluation error is raised as the same class by "
        "find/apply/exhausted finditer (find_one may return a node that precedes the error); non-trivial = non-empty "
        "result or an error; distinct by (query, document)")
ASSUMPTIONS = ["the module-level functions and a fresh JSONPathEnvironment() share the default configuration"]
TECHNIQUE = "Hypothesis property-based testing; metamorphic oracle across the public entry points"
LEVEL_TEXT = ("Generated valid/invalid queries x documents are pushed through all 14 public call paths and the "
              "results (or exception classes) are compared pairwise against list(finditer). Sampled.")
LEVEL_NOTE = "No reference model needed: the entry points are compared with each other."


def paths():
    import jsonpath_rfc9535 as jp

    env = jp.JSONPathEnvironment()
    lst = lambda it: list(it)  # noqa: E731
    return {
        "module.find": ("list", lambda q, d: lst(jp.find(q, d))),
        "module.finditer": ("list", lambda q, d: lst(jp.finditer(q, d))),
        "module.find_one": ("one", lambda q, d: jp.find_one(q, d)),
        "module.compile.find": ("list", lambda q, d: lst(jp.compile(q).find(d))),
        "module.compile.apply": ("list", lambda q, d: lst(jp.compile(q).apply(d))),
        "module.compile.finditer": ("list", lambda q, d: lst(jp.compile(q).finditer(d))),
        "module.compile.find_one": ("one", lambda q, d: jp.compile(q).find_one(d)),
        "env.find": ("list", lambda q, d: lst(env.find(q, d))),
        "env.finditer": ("list", lambda q, d: lst(env.finditer(q, d))),
        "env.find_one": ("one", lambda q, d: env.find_one(q, d)),
        "env.compile.find": ("list", lambda q, d: lst(env.compile(q).find(d))),
        "env.compile.apply": ("list", lambda q, d: lst(env.compile(q).apply(d))),
        "env.compile.finditer": ("list", lambda q, d: lst(env.compile(q).finditer(d))),
        "env.compile.find_one": ("one", lambda q, d: env.compile(q).find_one(d)),
    }


_PATHS = None


def nest(depth):
    v = {"a": 1}
    for i in range(depth):
        v = [v, 0] if i % 2 else {"a": v, "z": [1]}
    return v


def get_doc(case):
    if "deep" in case:
        return nest(case["deep"])
    if "chain" in case:
        v = 1
        for _ in range(case["chain"]):
            v = {"a": v}
        return v
    return case["doc"]


def sig_nodes(nodes):
    return [(tuple(n.location), id(n.value)) for n in nodes]


def env_paths(env):
    lst = lambda it: list(it)  # noqa: E731
    return {
        "env.find": ("list", lambda q, d: lst(env.find(q, d))),
        "env.finditer": ("list", lambda q, d: lst(env.finditer(q, d))),
        "env.find_one": ("one", lambda q, d: env.find_one(q, d)),
        "env.compile.find": ("list", lambda q, d: lst(env.compile(q).find(d))),
        "env.compile.apply": ("list", lambda q, d: lst(env.compile(q).apply(d))),
        "env.compile.finditer": ("list", lambda q, d: lst(env.compile(q).finditer(d))),
        "env.compile.find_one": ("one", lambda q, d: env.compile(q).find_one(d)),
    }


def default_paths():
    """The module-level functions plus the methods of the package's DEFAULT_ENV (they must stay the same thing)."""
    import jsonpath_rfc9535 as jp
    lst = lambda it: list(it)  # noqa: E731
    pm = env_paths(jp.DEFAULT_ENV)
    pm.update({
        "module.find": ("list", lambda q, d: lst(jp.find(q, d))),
        "module.finditer": ("list", lambda q, d: lst(jp.finditer(q, d))),
        "module.find_one": ("one", lambda q, d: jp.find_one(q, d)),
        "module.compile.find": ("list", lambda q, d: lst(jp.compile(q).find(d))),
        "module.compile.apply": ("list", lambda q, d: lst(jp.compile(q).apply(d))),
        "module.compile.finditer": ("list", lambda q, d: lst(jp.compile(q).finditer(d))),
        "module.compile.find_one": ("one", lambda q, d: jp.compile(q).find_one(d)),
    })
    return pm


def lifetime_paths():
    """Entry points used the way one-liners use them: nothing keeps the environment (or the query) alive except the
    object being used; a garbage collection runs before the result is consumed."""
    import gc

    import jsonpath_rfc9535 as jp
    lst = lambda it: list(it)  # noqa: E731

    def gcd(x):
        gc.collect()
        return x

    def mk():
        env = jp.JSONPathEnvironment()
        return env
    return {
        "env.compile.finditer": ("list", lambda q, d: lst(jp.JSONPathEnvironment().compile(q).finditer(d))),
        "dropped-env.compile.find": ("list", lambda q, d: lst(gcd(mk().compile(q)).find(d))),
        "dropped-env.compile.apply": ("list", lambda q, d: lst(gcd(mk().compile(q)).apply(d))),
        "dropped-env.compile.finditer": ("list", lambda q, d: lst(gcd(gcd(mk().compile(q)).finditer(d)))),
        "dropped-env.compile.find_one": ("one", lambda q, d: gcd(mk().compile(q)).find_one(d)),
        "dropped-env.finditer": ("list", lambda q, d: lst(gcd(mk().finditer(q, d)))),
        "dropped-env.find": ("list", lambda q, d: lst(gcd(mk().find(q, d)))),
        "dropped-query.finditer": ("list", lambda q, d: lst(gcd(jp.compile(q).finditer(d)))),
        "dropped-subclass-env.compile.find": ("list", lambda q, d: lst(gcd(type("E", (jp.JSONPathEnvironment,), {})().compile(q)).find(d))),
    }


def first_of(fn_finditer, q, doc):
    """README: find_one(query, value) is `next(iter(finditer(query, value)))`, None on StopIteration - including
    whatever that expression raises."""
    try:
        it = iter(fn_finditer(q, doc))
        try:
            n = next(it)
        except StopIteration:
            return ("ok", None)
        return ("ok", sig_nodes([n])[0])
    except Exception as e:  # noqa: BLE001
        return ("err", type(e).__name__)


def agree(pathsmap, q, doc, stage, lazy=None):
    """All paths of one environment agree with list(compile(q).finditer(doc)) (results or exception class)."""
    outcomes = {}
    for name, (kind, fn) in pathsmap.items():
        try:
            r = fn(q, doc)
            outcomes[name] = ("ok", sig_nodes(r) if kind == "list" else (None if r is None else sig_nodes([r])[0]))
        except Exception as e:  # noqa: BLE001
            outcomes[name] = ("err", type(e).__name__)
    base = outcomes["env.compile.finditer"]
    want_one = first_of(lazy, q, doc) if lazy is not None else None
    for name, (kind, _) in pathsmap.items():
        o = outcomes[name]
        if kind == "one" and want_one is not None:
            if o != want_one:
                return fail(f"reconfigured:find_one-differs:{name}", f"{stage}: {name}({q!r}) gives {o}, next(iter(finditer())) gives {want_one}", repr(want_one), repr(o))
            continue
        if base[0] == "err":
            if kind == "one" and base[1] == "JSONPathRecursionError" and (o[0] == "ok" or o == base):
                continue  # an evaluation error: find_one may return a node that precedes it
            if o != base:
                return fail(f"reconfigured:error-class-differs:{name}", f"{stage}: {name}({q!r}) gives {_show(o)}, a fresh compile raises {base[1]}", base, o)
        elif kind == "list":
            if o != base:
                return fail(f"reconfigured:list-differs:{name}", f"{stage}: {name}({q!r}) differs from a fresh compile", _show(base), _show(o))
        else:
            want = base[1][0] if base[1] else None
            if o != ("ok", want):
                return fail(f"reconfigured:find_one-differs:{name}", f"{stage}: {name}({q!r}) is not the first node of a fresh compile", repr(want), repr(o))
    return None


def examine_reconfigure(case):
    """Use a query, reconfigure the environment (public mapping / attributes), use the same text again."""
    import jsonpath_rfc9535 as jp
    from jsonpath_rfc9535.function_extensions import ExpressionType as T
    from jsonpath_rfc9535.function_extensions import FilterFunction

    def mk(params, ret, result):
        class F(FilterFunction):
            arg_types = params
            return_type = ret

            def __call__(self, *a):
                return result
        return F()

    target = case.get("target", "fresh")
    if target == "default":
        with lib.default_env_sandbox() as env:
            return _reconfigure(case, env, default_paths(), mk, T)
    if target == "subclass":
        env = type("SubEnv", (jp.JSONPathEnvironment,), {})()
    else:
        env = jp.JSONPathEnvironment()
    return _reconfigure(case, env, env_paths(env), mk, T)


def _reconfigure(case, env, pm, mk, T):
    import jsonpath_rfc9535 as jp
    doc = case["doc"]
    how = case["how"]
    via = case.get("via", "item")
    target = case.get("target", "fresh")
    env.function_extensions["f"] = mk([T.VALUE], T.LOGICAL, True)
    env.function_extensions["g"] = mk([T.VALUE], T.VALUE, 1)
    if how == "mode":
        # the traversal mode is configuration like any other: switched on first, off again below
        env.nondeterministic = True
    stored = {}
    for q in case["queries"]:
        if how != "mode":
            f = agree(pm, q, doc, "before reconfiguration", lazy=env.finditer)
            if f:
                return f
        try:
            stored[q] = env.compile(q)
            if how == "mode":
                for name, (kind, fn) in pm.items():
                    fn(q, doc)
        except Exception:  # noqa: BLE001
            pass
    reg = env.function_extensions

    def put(name, fn):
        # every public way of changing a mapping
        if via == "item":
            reg[name] = fn
        elif via == "update":
            reg.update({name: fn})
        elif via == "ior":
            reg.__ior__({name: fn})
        elif via == "pop-setdefault":
            reg.pop(name, None)
            reg.setdefault(name, fn)
        else:
            del reg[name]
            reg[name] = fn

    def drop(name):
        if via in ("item", "update", "ior"):
            del reg[name]
        elif via == "pop-setdefault":
            reg.pop(name)
        else:
            # popitem() until the name is gone, then put the others back with setdefault
            taken = []
            while name in reg:
                taken.append(reg.popitem())
            for k, v in reversed(taken):
                if k != name:
                    reg.setdefault(k, v)

    if how == "delete":
        drop("f")
        drop("length")
    elif how == "retype":
        if via == "instance-attr":
            # the declared types of the SAME registered objects change in place
            reg["f"].arg_types = [T.VALUE, T.VALUE]
            reg["g"].arg_types = [T.NODES]
            reg["g"].return_type = T.LOGICAL
        elif via == "class-attr":
            type(reg["f"]).arg_types = [T.VALUE, T.VALUE]
            type(reg["g"]).arg_types = [T.NODES]
            type(reg["g"]).return_type = T.LOGICAL
        else:
            put("f", mk([T.VALUE, T.VALUE], T.LOGICAL, False))
            put("g", mk([T.NODES], T.LOGICAL, True))
    elif how == "bounds":
        if via == "class-attr" and target == "default":
            jp.JSONPathEnvironment.max_int_index = 1
            jp.JSONPathEnvironment.min_int_index = -1
        else:
            env.max_int_index = 1
            env.min_int_index = -1
    elif how == "mode":
        env.nondeterministic = False
    elif how == "behaviour":
        put("f", mk([T.VALUE], T.LOGICAL, False))
        put("g", mk([T.VALUE], T.VALUE, 2))
    elif how == "recursion-limit":
        env.max_recursion_depth = case.get("limit", 2)
    # what the reconfigured environment must accept, judged independently (reference type checker)
    from vlib.ref import abnf, typecheck
    from vlib.ref.evaluate import BUILTINS
    model = {k: {"params": v["params"], "ret": v["ret"]} for k, v in BUILTINS.items()}
    model["f"] = {"params": ["Value"], "ret": "Logical"}
    model["g"] = {"params": ["Value"], "ret": "Value"}
    lo, hi = -(2**53) + 1, 2**53 - 1
    if how == "delete":
        del model["f"], model["length"]
    elif how == "retype":
        model["f"] = {"params": ["Value", "Value"], "ret": "Logical"}
        model["g"] = {"params": ["Nodes"], "ret": "Logical"}
    elif how == "bounds":
        lo, hi = -1, 1
    for q in case["queries"]:
        f = agree(pm, q, doc, f"after reconfiguration ({how} via {via})", lazy=env.finditer)
        if f:
            return f
        res = abnf.classify(q)
        if res.verdict == abnf.VALID:
            want_ok = typecheck.check(res.ast, model, lo, hi) is None
            st, got = lib.compile_(q, env)
            if want_ok and st != "ok":
                return fail("reconfigured:valid-query-refused", f"after reconfiguration ({how} via {via}) {q!r} is valid for the new "
                            f"configuration but compile() raises {got['type']}", "compiles", got)
            if not want_ok and st == "ok":
                return fail("reconfigured:invalid-query-accepted", f"after reconfiguration ({how} via {via}) {q!r} is not valid for the new "
                            f"configuration ({typecheck.check(res.ast, model, lo, hi)}) but compile() still accepts it", "JSONPathError", "compiled")
        # a query compiled before the change, applied after it, behaves like a fresh compile whenever the text
        # still compiles (configuration is read when the query is applied)
        if q in stored and how in ("behaviour", "recursion-limit", "mode"):
            try:
                fresh = ("ok", sig_nodes(list(env.compile(q).finditer(doc))))
            except Exception as e:  # noqa: BLE001
                fresh = ("err", type(e).__name__)
            try:
                old = ("ok", sig_nodes(list(stored[q].finditer(doc))))
            except Exception as e:  # noqa: BLE001
                old = ("err", type(e).__name__)
            if old != fresh:
                return fail("reconfigured:stored-query-differs", f"after reconfiguration ({how}): a query compiled before ({q!r}) gives "
                            f"{_show(old)}, a fresh compile gives {_show(fresh)}", _show(fresh), _show(old))
    return None


def examine_reapply(case):
    """Compiled queries are kept, the caller changes the value in place (what an embedded '$' query refers to), and
    every entry point is used again: stored compiled queries must agree with one-shot calls, which compile afresh."""
    import jsonpath_rfc9535 as jp
    from vlib.gen import values as V
    doc = V.fresh(case["doc"])
    q = case["q"]
    env = jp.JSONPathEnvironment()
    try:
        stored = {"env": env.compile(q), "module": jp.compile(q)}
    except Exception:  # noqa: BLE001 - validity is not this case's business
        return None
    lst = lambda it: list(it)  # noqa: E731

    def pm():
        out = {"env.compile.finditer": ("list", lambda q_, d: lst(env.compile(q_).finditer(d))),
               "env.find": ("list", lambda q_, d: lst(env.find(q_, d))),
               "module.find_one": ("one", lambda q_, d: jp.find_one(q_, d))}
        for tag, cq in stored.items():
            out[f"stored-{tag}.find"] = ("list", lambda q_, d, cq=cq: lst(cq.find(d)))
            out[f"stored-{tag}.apply"] = ("list", lambda q_, d, cq=cq: lst(cq.apply(d)))
            out[f"stored-{tag}.finditer"] = ("list", lambda q_, d, cq=cq: lst(cq.finditer(d)))
            out[f"stored-{tag}.find_one"] = ("one", lambda q_, d, cq=cq: cq.find_one(d))
        return out
    f = agree(pm(), q, doc, "first use", lazy=env.finditer)
    if f:
        return f
    for step, (key, value) in enumerate(case["mutations"]):
        try:
            doc[key] = V.fresh(value)
        except (IndexError, KeyError, TypeError):
            continue
        f = agree(pm(), q, doc, f"after the caller's in-place change #{step + 1} ({key!r} := {value!r})", lazy=env.finditer)
        if f:
            f["bucket"] = "reapply:" + f["bucket"].split(":", 1)[1]
            return f
    return None


def examine(case):
    global _PATHS
    if not case.get("_inside"):
        # queries of hundreds / thousands of segments: whatever happens (a result, or the interpreter's recursion
        # limit hit inside the evaluator's pipeline) must happen identically through every entry point
        with lib.host_stack():
            return examine(dict(case, _inside=True))
    if case.get("kind") == "reconfigure":
        return examine_reconfigure(case)
    if case.get("kind") == "reapply":
        return examine_reapply(case)
    if case.get("kind") == "lifetime":
        return agree(lifetime_paths(), case["q"], get_doc(case), "nothing but the object in use keeps its environment alive")
    if _PATHS is None:
        _PATHS = paths()
    q, doc = case["q"], get_doc(case)
    outcomes = {}
    for name, (kind, fn) in _PATHS.items():
        try:
            r = fn(q, doc)
            outcomes[name] = ("ok", sig_nodes(r) if kind == "list" else (None if r is None else sig_nodes([r])[0]))
        except Exception as e:  # noqa: BLE001
            outcomes[name] = ("err", type(e).__name__)
    base = outcomes["env.compile.finditer"]
    compiled_ok = lib.compile_(q)[0] == "ok"
    import jsonpath_rfc9535 as jp
    want_one = first_of(lambda q_, d_: jp.JSONPathEnvironment().finditer(q_, d_), q, doc)
    for name, (kind, _) in _PATHS.items():
        o = outcomes[name]
        if kind == "one":
            if o != want_one:
                return fail(f"find_one-differs:{name}", f"{name}({q!r}) gives {o}, but find_one is documented as next(iter(finditer())), which gives {want_one}",
                            repr(want_one), repr(o))
            continue
        if base[0] == "err":
            if kind == "list" or not compiled_ok:
                if o != base:
                    return fail(f"error-class-differs:{name}", f"{name}({q!r}) gives {o}, list(finditer) raises {base[1]}", base, o)
            else:
                # evaluation error: find_one may return the node preceding the error, or raise the same class
                if o[0] == "err" and o[1] != base[1]:
                    return fail(f"error-class-differs:{name}", f"{name}({q!r}) raises {o[1]}, finditer raises {base[1]}", base, o)
            continue
        if kind == "list":
            if o != base:
                return fail(f"list-differs:{name}", f"{name}({q!r}) differs from list(finditer)", _show(base), _show(o))
        else:
            want = base[1][0] if base[1] else None
            if o != ("ok", want):
                return fail(f"find_one-differs:{name}", f"{name}({q!r}) is not the first node of finditer (or None)",
                            repr(want), repr(o))
    return None


def M_quote(name):
    from vlib.ref import normpath
    return normpath.render_name(name)


def _show(o):
    if o[0] == "ok" and isinstance(o[1], list):
        return ["ok", [list(l) for l, _ in o[1]][:10]]
    return list(o)


def fail(bucket, what, expected, observed):
    return {"bucket": bucket, "what": what, "expected": expected, "observed": observed}


def plan(tier, seed):
    if tier == "quick":
        return [{"n": 500} for _ in range(16)]
    return [{"n": 5000} for _ in range(16)]


def run_shard(spec, shard):
    tier = spec["tier"]

    def one(case, classes):
        global _PATHS
        if _PATHS is None:
            _PATHS = paths()
        q, doc = case["q"], get_doc(case)
        try:
            res = _PATHS["env.compile.finditer"][1](q, doc)
            nt = len(res) > 0
            classes = classes | {"non-empty" if res else "empty"}
        except Exception as e:  # noqa: BLE001
            nt = True
            classes = classes | {"error:" + type(e).__name__}
        shard.case(key=(q, case.get("deep", case.get("chain", case.get("doc")))), nontrivial=nt, classes=classes,
                   sample={"q": q[:120], "doc": case.get("doc", f"nest({case.get('deep')})" if "deep" in case else f"chain({case.get('chain')})")})
        f = examine(case)
        if f:
            shard.fail(f["bucket"], case, f)

    def body(r):
        doc = diff.make_doc(r, tier, falsy_bias=0.2)
        ast, text, used = diff.make_query(r, shard, filters=True, doc=doc, max_segs=3)
        one({"q": text, "doc": doc}, {"valid"})
        if r.random() < 0.05:
            # a scalar as the query argument - in particular a string holding JSON text, which is a string like any other
            import json as _json
            root = r.choice([_json.dumps(doc), "[1, 2, 3]", '{"a": 1}', "123", "null", '"x"', "", 12, None, True, 1.5])
            for q2 in ("$", text, "$[0]", "$.a", "$..*", "$[?@]"):
                one({"q": q2, "doc": root}, {"scalar-root"})
        m, kinds = M.mutant(text, r)
        if lib.compile_(m)[0] != "ok":
            one({"q": m, "doc": doc}, {"invalid"})
        k = r.random()
        if k < 0.15:
            one({"q": r.choice(["$[?nope(@)]", "$[?length(@)]", "$[9007199254740992]", "$[?count(1)>0]", "$.a.",
                                "$[?@.a==@.*]", "$[1:2:9007199254740993]", "", " $", "$[?match(@.a)]"]), "doc": doc},
                {"invalid", "error-class-battery"})
        elif k < 0.32:
            qs = r.sample(["$[?f(@.a)]", "$[?g(@.a) == 1]", "$[?length(@) > 1]", "$[2]", "$[-2:]", "$[?f(@)]..[1]", "$[?!f(@.b)]",
                           "$..[?g(@) == 1]", "$[?count(@.*) > 0 && f(1)]", "$[0]", "$[?@[5]]"], 4)
            # more queries of the same families, so the same text is not always the first use of a function
            qs = qs + r.sample(["$[?f(@.b)]", "$[?g(@.b) == 1]", "$[?count(@.*) == g(@.a)]", "$[?f(g(@.a))]", "$[?length(g(@.a)) == 1]",
                                "$[?f(@.a) && f(@.b)]", "$[?g(@.a) == g(@.b)]", "$[1]", "$[-1]"], 2)
            case = {"kind": "reconfigure", "doc": doc, "queries": qs,
                    "how": r.choice(["delete", "retype", "bounds", "behaviour", "recursion-limit", "mode"]),
                    "via": r.choice(["item", "update", "ior", "pop-setdefault", "popitem", "instance-attr", "class-attr"]), "limit": r.choice([1, 2, 3]),
                    "target": r.choice(["fresh", "fresh", "default", "subclass"])}
            if case["how"] in ("recursion-limit", "mode"):
                case["queries"] = r.sample(["$..a", "$..*", "$[0]..[?f(@)]", "$..[?g(@) == 1]", "$.a..b", "$..[0]", "$[?count(@..*) > 1]"], 4)
                case["doc"] = r.choice([doc, nest(r.choice([2, 3, 4, 5])), [nest(3), nest(1)]])
            shard.case(key=(case["queries"], case["how"], case["via"], case["target"], case["doc"]), nontrivial=True,
                       classes={"reconfigure:" + case["how"], "via:" + case["via"], "target:" + case["target"]},
                       sample={"queries": case["queries"], "how": case["how"], "via": case["via"], "target": case["target"]})
            f = examine(case)
            if f:
                shard.fail(f["bucket"], case, f)
        elif k < 0.4 and isinstance(doc, (dict, list)) and doc:
            key = r.choice(list(doc)) if isinstance(doc, dict) else r.randrange(len(doc))
            R = "$[%s]" % (M_quote(key) if isinstance(key, str) else key)
            expr = r.choice(["@ == %s", "@ != %s", "@.a < %s", "%s", "!%s", "count(%s.*) > 1", "length(%s) == 2", "@ != %s && @", "@.a == %s.a", "%s == @.b",
                             "%s[0] == @", "@[?@ == %s]"]) % R
            rq = r.choice(["$[?%s]", "$[?%s]", "$..[?%s]", "$.*[?%s]"]) % expr
            pool = [0, 1, 2, 5, -1, "a", "b", "", None, True, False, [], [1, 2], {"a": 1}, 1.5, [0], {"a": "a", "b": 1}]
            case = {"kind": "reapply", "q": rq, "doc": doc, "mutations": [(key, r.choice(pool)) for _ in range(r.randint(1, 3))]}
            shard.case(key=("reapply", rq, doc, repr(case["mutations"])), nontrivial=True, classes={"reapply-after-in-place-change"}, sample={"kind": "reapply", "q": rq})
            f = examine(case)
            if f:
                shard.fail(f["bucket"], case, f)
        elif k < 0.44:
            lq = text if r.random() < 0.6 else r.choice(["$[?length(@.a) > 0]", "$..[?count(@.*) > 1]", "$[?match(@.a, 'a.*')]", "$[?search(@.b, '[a-z]')]",
                                                         "$[?value(@.*) == 1]", "$.*[?length(@) >= 1]", "$[?nope(@)]", "$[?length(@)]"])
            case = {"kind": "lifetime", "q": lq, "doc": doc}
            shard.case(key=("lifetime", lq, doc), nontrivial=True, classes={"lifetime:environment-dropped", "call" if "(" in lq else "no-call"},
                       sample={"kind": "lifetime", "q": lq})
            f = examine(case)
            if f:
                shard.fail(f["bucket"], case, f)
        elif k < 0.47:
            n = r.choice([200, 450, 1200, 3000])
            one({"q": "$" + r.choice([".a", "['a']", "[*]"]) * n + r.choice(["", ".a", "[?@]"]), "chain": n + r.choice([0, 0, 2]), "host_stack": True},
                {"very-long-query"})
        elif k < 0.52:
            one({"q": r.choice(["$..a", "$..*", "$[0]..[?@.a]", "$.a..z[0]", "$..[?@.z]", "$.*..a", "$..nomatch",
                                "$..[?@.nomatch]", "$..[7]"]),
                 "deep": r.choice([10, 30, 49, 50, 51, 60, 80, 98, 99, 100, 101, 102, 120])}, {"deep-document"})

    drive(rng(), spec["n"], spec["seed"], body)


def minimise(case, failure, tier):
    bucket = failure["bucket"]
    if case.get("kind") in ("reconfigure", "lifetime", "reapply") or case.get("host_stack"):
        return case, failure
    cur = dict(case)

    def ok_t(t):
        f = examine(dict(cur, q=t))
        return f is not None and f["bucket"] == bucket

    cur["q"] = shrink.shrink_text(cur["q"], ok_t, shrink.Budget(1500))
    if "doc" in cur:
        cur["doc"] = shrink.shrink_json(cur["doc"], lambda d: (examine(dict(cur, doc=d)) or {}).get("bucket") == bucket,
                                        shrink.Budget(600))
    return cur, examine(cur) or failure


def signature(case, failure):
    return f"C15:{failure['bucket']}"
