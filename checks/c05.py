"""C05 Validity rules: function well-typedness, singular comparands, integer range."""
from __future__ import annotations

import copy

from vlib import diff, lib, shrink
from vlib.gen import queries as Q
from vlib.hyp import drive, rng
from vlib.ref import abnf, typecheck
from vlib.ref.evaluate import BUILTINS, LOGICAL, NODES, VALUE

PROPERTY = "C05"
RULE = ("cases = (function registry, integer bounds, query text): random registries of 1-6 functions with every "
        "signature over {Value,Logical,Nodes}^n -> type (n <= 3) and names from the function-name grammar (incl. "
        "names starting with true/false/null), environments with default / +-10 / +-2^31 / asymmetric bounds, "
        "queries well-typed by construction and the same queries with one injected fault (arity, argument class, "
        "Value call as test, non-Value call compared, non-singular query compared, unknown function, integer at "
        "or one past a bound, the integer 0, integers with up to 5000 digits) at a random position; bounds include ranges "
        "that exclude 0; a third of the registries use function objects that are falsy; a quarter of the environments "
        "first live with another registry, compile a query with it and are then switched (rebinding or in place); oracle = reference judgement: compiles <=> grammatical, "
        "well-typed and in range, otherwise a JSONPathError and no registered function is invoked; non-trivial = "
        "the fault / boundary integer / call sits below the top level of a filter (under !, &&, ||, parentheses, "
        "inside an argument or a nested filter); distinct by (registry, bounds, text)")
ASSUMPTIONS = ["vlib/ref/typecheck.py implements RFC 9535 2.4.3 as restated in the property",
               "function names true/false/null are not registered (DISPUTED)"]
TECHNIQUE = "Hypothesis property-based testing with fault injection; oracle = independent type checker + ABNF recogniser"
LEVEL_TEXT = ("Random function registries and integer bounds, well-typed queries and single-fault variants at every "
              "syntactic position; compile() must agree with an independent judgement in both directions and must "
              "not invoke any function. Sampled.")
LEVEL_NOTE = "Trusted: vlib/ref/typecheck.py + abnf.py; the expected verdict is recomputed from the text, never assumed from the injected fault."

TYPES = [VALUE, LOGICAL, NODES]
HUGE_SENTINEL = 424242424242424242   # replaced in the rendered text by a digit string of up to 5000 digits
FNAMES = ["f", "g", "h", "nullable", "truthy", "falsey", "true_1", "n0", "v2", "is_ok", "l", "nn", "fn_9x", "null_",
          "length", "count", "value", "match", "search", "t", "zz"]
BOUNDS = [None, (-10, 10), (-2**31, 2**31 - 1), (-5, 20), (0, 3), (-(2**53) + 1, 2**53 - 1), (1, 10), (-10, -1), (3, 3),
          (2, 2**53 - 1),
          # the two bounds differ in their number of digits
          (-(2**53) + 1, 99), (-1000, 9), (-100, 99), (-9, 100000), (0, 10**6), (-(10**9), 5), (-99, 9), (-10**15, 10**15)]


def make_registry(r):
    reg = {}
    if r.random() < 0.4:
        reg.update({k: {"params": list(v["params"]), "ret": v["ret"]} for k, v in BUILTINS.items()})
    for _ in range(r.randrange(1, 7)):
        name = r.choice(FNAMES)
        if name in BUILTINS and name in reg:
            continue
        n = r.choice([0, 1, 1, 1, 2, 2, 3])
        reg[name] = {"params": [r.choice(TYPES) for _ in range(n)], "ret": r.choice(TYPES)}
    return reg


def lib_functions(reg, counter, falsy=False):
    from jsonpath_rfc9535 import JSONPathNodeList
    from jsonpath_rfc9535.function_extensions import ExpressionType, FilterFunction

    tmap = {VALUE: ExpressionType.VALUE, LOGICAL: ExpressionType.LOGICAL, NODES: ExpressionType.NODES}
    fns = {}
    for i, (name, sig) in enumerate(sorted(reg.items())):
        ret = sig["ret"]

        class F(FilterFunction):
            arg_types = [tmap[p] for p in sig["params"]]
            return_type = tmap[ret]

            def __call__(self, *a):
                counter[0] += 1
                _ret = self.return_type     # read when called: the declaration may have been changed in place
                return 1 if _ret == ExpressionType.VALUE else True if _ret == ExpressionType.LOGICAL else JSONPathNodeList()

        if falsy and i % 2 == 0:
            # a perfectly legal function object that happens to be falsy (it has a length of zero)
            F.__len__ = lambda self: 0
        fns[name] = F()
    return fns


def lib_env(reg, bounds, counter, falsy=False, warmup=None):
    """An environment with the registry `reg`.  With warmup = (registry, query, how) the environment first lives
    with another registry, compiles a query that uses it, and is then switched to `reg` by rebinding
    (`env.function_extensions = {...}`) or in place (clear + update)."""
    lo, hi = bounds if bounds else (None, None)
    fns = lib_functions(reg, counter, falsy)
    if not warmup:
        return lib.make_env(min_int=lo, max_int=hi, functions=fns, keep_builtins=False)
    reg0, q0, how = warmup
    if how == "rebound":
        env = lib.make_env(functions=lib_functions(reg0, counter), keep_builtins=False)
        env.min_int_index, env.max_int_index = -7, 7          # instance-level bounds, in force for the warm-up only
        for q_ in ("$[1]", "$[0:2:1]", "$[?@[0] == 1]", q0):
            lib.compile_(q_, env)
        if lo is None:
            del env.min_int_index, env.max_int_index           # back to the class defaults
        else:
            env.min_int_index, env.max_int_index = lo, hi
        env.function_extensions = dict(fns)
        return env
    env = lib.make_env(min_int=lo, max_int=hi, functions=lib_functions(reg0, counter), keep_builtins=False)
    lib.compile_(q0, env)
    if how == "rebind":
        env.function_extensions = dict(fns)
    elif how == "retype-objects":
        # the registered OBJECTS stay; their declared parameter / result types are changed in place
        ext = env.function_extensions
        for name in list(ext):
            if name not in reg:
                del ext[name]
        for name, fn in fns.items():
            if name in ext:
                if len(name) % 2:
                    ext[name].arg_types = list(fn.arg_types)
                    ext[name].return_type = fn.return_type
                else:
                    type(ext[name]).arg_types = list(fn.arg_types)
                    type(ext[name]).return_type = fn.return_type
            else:
                ext[name] = fn
    else:
        env.function_extensions.clear()
        env.function_extensions.update(fns)
    return env


# ---------------------------------------------------------------- fault injection
def typed_sites(ast, reg):
    """[(path, kind, info, depth)] for every place a fault can be injected."""
    out = []

    def query(q, path, depth):
        for si, seg in enumerate(q[2]):
            for li, sel in enumerate(seg[1]):
                p = path + [2, si, 1, li]
                if sel[0] == "index":
                    out.append((p + [1], "int", None, depth))
                elif sel[0] == "slice":
                    for k in (1, 2, 3):
                        if sel[k] is not None:
                            out.append((p + [k], "int", None, depth))
                elif sel[0] == "filter":
                    logical(sel[1], p + [1], depth + (1 if depth else 0), top=True)

    def logical(e, path, depth, top=False):
        d = depth if top else depth + 1
        t = e[0]
        if t in ("or", "and"):
            for i, x in enumerate(e[1]):
                logical(x, path + [1, i], d)
        elif t in ("not", "paren"):
            logical(e[1], path + [1], d)
        elif t == "cmp":
            for k in (2, 3):
                out.append((path + [k], "cmp-operand", None, d))
                operand(e[k], path + [k], d)
        elif t == "test":
            out.append((path + [1], "test", None, d))
            operand(e[1], path + [1], d)

    def operand(x, path, depth):
        if x[0] == "q":
            query(x, path, depth + 1)
        elif x[0] == "call":
            out.append((path, "call", None, depth))
            fn = reg.get(x[1])
            for i, a in enumerate(x[2]):
                pt = fn["params"][i] if fn and i < len(fn["params"]) else None
                out.append((path + [2, i], "arg", pt, depth + 1))
                if a[0] in ("q", "call"):
                    operand(a, path + [2, i], depth + 1)
                elif a[0] != "lit":
                    logical(a, path + [2, i], depth + 1)

    query(ast, [], 0)
    return out


def get_at(ast, path):
    for i in path:
        ast = ast[i]
    return ast


def set_at(ast, path, v):
    for i in path[:-1]:
        ast = ast[i]
    ast[path[-1]] = v


def inject(ast, reg, bounds, r, g):
    """Return (new ast, fault label, depth) or None."""
    sites = typed_sites(ast, reg)
    if not sites:
        return None
    path, kind, info, depth = r.choice(sites)
    ast = copy.deepcopy(ast)
    lo, hi = bounds if bounds else (-(2**53) + 1, 2**53 - 1)
    by_ret = {t: [n for n, f in reg.items() if f["ret"] == t] for t in TYPES}

    def some_call(ret):
        if not by_ret[ret]:
            return None
        return g.call(ret, 1, 1)

    if r.random() < 0.12:
        # a ValueType call used as a test expression *inside* a LogicalType argument, under ! / && / || / parentheses
        lfs = [n for n, f in reg.items() if LOGICAL in f["params"]]
        tsites = [s_ for s_ in sites if s_[1] == "test"]
        vc = some_call(VALUE)
        if lfs and tsites and vc is not None:
            path, _, _, depth = r.choice(tsites)
            fname = r.choice(lfs)
            fn = reg[fname]
            bad = ["test", vc]
            other = ["test", ["q", "@", [["child", [["name", r.choice("ab")]]]]]]
            comp = r.choice([["not", bad], ["and", [bad, other]], ["and", [other, bad]], ["or", [other, bad]], ["paren", ["or", [bad, other]]],
                             ["not", ["paren", ["and", [other, ["not", bad]]]]], ["and", [other, ["paren", bad]]]])
            args, used = [], False
            for pt in fn["params"]:
                if pt == LOGICAL and not used:
                    args.append(comp)
                    used = True
                else:
                    args.append(g.argument(pt, 1, 1))
            args = [a[1] if a and a[0] == "test" and a is not comp else a for a in args]
            call = ["call", fname, args]
            if fn["ret"] == VALUE:
                # (get_at(path) is the operand of a test expression: replace the whole test by a comparison)
                set_at(ast, path[:-1], ["cmp", "==", call, ["lit", 1]])
            else:
                set_at(ast, path, call)
            return ast, "value-call-as-test-in-logical-argument", depth
    looks_singular = [[["slice", -1, None, None]], [["slice", 0, 1, None]], [["slice", 2, 3, 1]], [["slice", None, 1, None]], [["slice", -1, None, 1]],
                      [["index", 0], ["index", 0]], [["name", "a"], ["name", "a"]], [["slice", 1, 2, None]]]
    if kind == "int":
        v = r.choice([hi + 1, lo - 1, hi, lo, hi + 1, lo - 1, 0, 0, HUGE_SENTINEL, -HUGE_SENTINEL, 10**17 + 1, -(10**400)])
        set_at(ast, path, v)
        return ast, ("int-past-bound" if v > hi or v < lo else "int-at-bound"), depth
    if kind == "test":
        c = some_call(VALUE)
        if c is None:
            return None
        set_at(ast, path, c)
        return ast, "value-call-as-test", depth
    if kind == "cmp-operand":
        k = r.randrange(3)
        if k == 0:
            c = some_call(r.choice([LOGICAL, NODES]))
            if c is None:
                return None
            set_at(ast, path, c)
            return ast, "non-value-call-compared", depth
        if k == 1:
            set_at(ast, path, ["q", "@", [["child", [["wild"]]]]] if r.random() < 0.5 else
                   ["q", r.choice("@$"), [["desc", [["name", "a"]]]]])
            return ast, "non-singular-compared", depth
        if r.random() < 0.6:
            # a query that can select at most one node but is not *syntactically* singular
            set_at(ast, path, ["q", r.choice("@$"), ([["child", [["name", "a"]]]] if r.random() < 0.5 else []) + [["child", copy.deepcopy(r.choice(looks_singular))]]])
            return ast, "non-singular-compared", depth
        set_at(ast, path, ["q", "@", [["child", [["name", "a"], ["name", "b"]]]]])
        return ast, "non-singular-compared", depth
    if kind == "call":
        node = get_at(ast, path)
        k = r.randrange(3)
        if k == 0:
            node[1] = r.choice(["nope", "undefined_fn", "len", "lengthh", "x"])
            if node[1] in reg:
                return None
            return ast, "unknown-function", depth
        if k == 1 and node[2]:
            node[2].pop(r.randrange(len(node[2])))
            return ast, "arity", depth
        node[2].insert(r.randrange(len(node[2]) + 1), r.choice([
            ["lit", 1], ["q", "@", []], ["lit", "a"], ["paren", ["test", ["q", "@", [["child", [["name", "b"]]]]]]],
            ["not", ["test", ["q", "@", []]]], ["paren", ["paren", ["test", ["q", "$", []]]]],
            ["paren", ["cmp", "==", ["q", "@", []], ["lit", 1]]]]))
        return ast, "arity", depth
    if kind == "arg":
        pt = info
        cands = []
        if pt == VALUE:
            cands = [["q", "@", [["child", [["wild"]]]]], ["cmp", "==", ["lit", 1], ["lit", 1]],
                     some_call(LOGICAL), some_call(NODES), ["q", "$", [["desc", [["wild"]]]]],
                     ["q", "@", [["child", [["name", "a"]]], ["child", copy.deepcopy(r.choice(looks_singular))]]],
                     ["q", "@", [["child", copy.deepcopy(r.choice(looks_singular))]]]]
        elif pt == NODES:
            cands = [["lit", 1], ["lit", "a"], ["cmp", "==", ["q", "@", []], ["lit", 1]], some_call(VALUE),
                     some_call(LOGICAL), ["lit", None]]
        if pt in (VALUE, NODES):
            # an even number of negations around a query or a NodesType call is LogicalType, not the thing negated
            inner = r.choice([["q", "@", [["child", [["name", "a"]]]]], ["q", "@", [["child", [["wild"]]]]], some_call(NODES) or ["q", "@", []]])
            cands += [["not", ["paren", ["not", ["paren", ["test", inner]]]]], ["not", ["not", ["test", inner]]],
                      ["paren", ["test", inner]]]
        elif pt == LOGICAL:
            cands = [["lit", True], ["lit", 1], some_call(VALUE), ["lit", "x"]]
        cands = [c for c in cands if c is not None]
        if not cands:
            return None
        set_at(ast, path, r.choice(cands))
        return ast, f"wrong-class-for-{pt}", depth
    return None


# ---------------------------------------------------------------- oracle
def expected_of(text, reg, bounds):
    lo, hi = bounds if bounds else (-(2**53) + 1, 2**53 - 1)
    res = abnf.classify(text)
    if res.verdict == abnf.DISPUTED:
        return "DISPUTED", None
    if res.verdict == abnf.INVALID:
        return "reject", ("grammar", res.rules)
    tc = typecheck.check(res.ast, reg, lo, hi)
    if tc is not None:
        return "reject", tc
    if diff.EXCLUDE_R and diff.arg_starts_with_not_or_paren(res.ast):
        return "EXCLUDED-R", None
    return "accept", None


def examine(case):
    reg = case["registry"]
    bounds = tuple(case["bounds"]) if case.get("bounds") else None
    text = case["q"]
    exp, why = expected_of(text, reg, bounds)
    if exp in ("DISPUTED", "EXCLUDED-R"):
        return None
    counter = [0]
    w = case.get("warmup")
    try:
        env = lib_env(reg, bounds, counter, falsy=bool(case.get("falsy")), warmup=(w["registry"], w["q"], w["how"]) if w else None)
    except Exception as e:  # noqa: BLE001 - the public mapping / attributes refused an ordinary configuration step
        info = lib.exc_info(e)
        return {"bucket": f"configuration-raised:{info['type']}", "what": f"configuring the environment (registry {sigs(reg)}, bounds {bounds}, "
                f"warm-up {w['how'] if w else None}) raised {info['type']}: {info['str']}", "expected": "an environment", "observed": info}
    counter[0] = 0
    status, got = lib.compile_(text, env)
    if counter[0]:
        return {"bucket": "function-invoked-at-compile", "what": f"compile({text!r}) invoked a registered function",
                "expected": "no invocation", "observed": counter[0]}
    if exp == "accept":
        if status == "ok":
            return None
        return {"bucket": f"refused:{got['type']}:{got['frame']}",
                "what": f"well-typed query {text!r} (registry {sigs(reg)}, bounds {bounds}) refused: {got['type']}: {got['str']}",
                "expected": "compile() returns", "observed": got}
    if status == "ok":
        return {"bucket": f"accepted:{why[0]}",
                "what": f"{text!r} is not valid ({why[0]}: {why[1]}; registry {sigs(reg)}, bounds {bounds}) but compile() accepted it",
                "expected": "JSONPathError", "observed": "compiled"}
    if not got["jsonpath_error"]:
        return {"bucket": f"wrong-exception:{got['type']}:{got['frame']}",
                "what": f"{text!r} raised {got['type']}: {got['str']}", "expected": "JSONPathError", "observed": got}
    return None


def sigs(reg):
    return {n: "(" + ",".join(p[0] for p in f["params"]) + ")->" + f["ret"][0] for n, f in reg.items()}



def _with_interpreter_variants(specs, tier, n_small, extra=None):
    """The same shard body in child interpreters started with other flags / environment variables."""
    from vlib.runner import INTERPRETERS
    base = dict(extra or {})
    for name in INTERPRETERS:
        s = dict(base, n=n_small if tier == "quick" else n_small * 6, interp=name)
        specs.append(s)
    return specs


def plan(tier, seed):
    if tier == "quick":
        return _with_interpreter_variants([{"n": 1000} for _ in range(16)], tier, 150)
    return _with_interpreter_variants([{"n": 10000} for _ in range(16)], tier, 150)


def run_shard(spec, shard):
    def body(r):
        reg = make_registry(r)
        bounds = r.choice(BOUNDS)
        g = Q.QGen(r, names=["a", "b", "c"], registry=reg, filters=True, max_filter_depth=2)
        if bounds:
            lo, hi = bounds
            g.int_ = lambda small=True, lo=lo, hi=hi: r.choice([lo, hi, 0, 0, 1, -1 if lo < 0 else 0,
                                                                r.randrange(max(lo, -9), min(hi, 9) + 1),
                                                                -((-lo) // 2) if lo < 0 else lo, hi // 2 if hi > 0 else hi,
                                                                max(lo, -(10 ** len(str(abs(hi))))), min(hi, 10 ** len(str(abs(lo))))])
        base = g.query(min_segs=1, max_segs=3)
        if "filter" not in Q.features(base):
            base[2].append(["child", [["filter", g.logical(1, 2)]]])
        fault, depth = "none", 0
        ast = base
        if r.random() < 0.6:
            inj = inject(base, reg, bounds, r, g)
            if inj:
                ast, fault, depth = inj
        text = Q.Renderer(r, 0.1).query(ast)
        if str(HUGE_SENTINEL) in text:
            # integers longer than Python's int<->str conversion limit (4300 digits) are spliced in as text
            text = text.replace(str(HUGE_SENTINEL), r.choice("123456789") + "7" * r.choice([4299, 4300, 4301, 4999]))
        exp, why = expected_of(text, reg, bounds)
        if exp == "DISPUTED":
            shard.notes["disputed"] += 1
            return
        if exp == "EXCLUDED-R":
            shard.excluded["R:function-argument-starting-with-!-or-("] += 1
            return
        nested_call = any(x[0] == "call" and any(a and a[0] == "call" for a in x[2]) for x in Q.walk(ast) if x)
        nt = (fault != "none" and depth >= 1) or (fault == "none" and nested_call) or \
             (fault.startswith("int") and depth >= 1)
        case = {"q": text, "registry": reg, "bounds": list(bounds) if bounds else None}
        if r.random() < 0.3:
            case["falsy"] = True
        if r.random() < 0.3:
            reg0 = make_registry(r)
            how0 = r.choice(["rebind", "rebind", "in-place", "retype-objects", "retype-objects", "rebound", "rebound"])
            if how0 == "retype-objects":
                # the same names with other declarations
                reg0 = {name: ({"params": [r.choice(TYPES) for _ in range(r.choice([len(sg["params"])] * 3 + [0, 1, 2]))], "ret": r.choice(TYPES)}
                               if r.random() < 0.8 else {"params": list(sg["params"]), "ret": sg["ret"]}) for name, sg in reg.items()}
            g0 = Q.QGen(r, names=["a", "b"], registry=reg0, filters=True, max_filter_depth=1)
            callable0 = [n for n in reg0]
            q0 = None
            for _ in range(5):
                e0 = g0.logical(1, 2)
                if "call" in Q.features(["q", "$", [["child", [["filter", e0]]]]]):
                    q0 = Q.canonical(["q", "$", [["child", [["filter", e0]]]]])
                    break
            if q0:
                case["warmup"] = {"registry": reg0, "q": q0, "how": how0}
        pos = "top" if depth == 0 else "nested" if depth == 1 else "deep"
        shard.case(key=(text, sigs(reg), bounds), nontrivial=nt,
                   classes={"fault:" + fault, "expected:" + exp, f"{fault}@{pos}",
                            "why:" + (why[0] if why else "valid")} | ({"falsy-function-objects"} if case.get("falsy") else set())
                   | ({"registry-switched:" + case["warmup"]["how"]} if case.get("warmup") else set()),
                   sample={"q": text, "registry": sigs(reg), "bounds": bounds, "fault": fault, "expected": exp})
        f = examine(case)
        if f:
            shard.fail(f["bucket"] + ":" + fault, case, f, size=len(text))

    drive(rng(), spec["n"], spec["seed"], body)


def minimise(case, failure, tier):
    kind = failure["bucket"].split(":")[:2]

    def ok(t):
        f = examine(dict(case, q=t))
        return f is not None and f["bucket"].split(":")[:2] == kind

    t = shrink.shrink_text(case["q"], ok, shrink.Budget(2500))
    c2 = dict(case, q=t)
    # drop unused functions
    reg = dict(c2["registry"])
    for name in list(reg):
        trial = {k: v for k, v in reg.items() if k != name}
        f = examine(dict(c2, registry=trial))
        if f is not None and f["bucket"].split(":")[:2] == kind:
            reg = trial
    c2 = dict(c2, registry=reg)
    f2 = examine(c2)
    return (c2, f2) if f2 else (case, failure)


def signature(case, failure):
    return f"C05:{failure['bucket']}:{diff.shape(case['q'])}"
