"""atheris (libFuzzer) target for C13: compile() + find() on a small battery, totality oracle inside.

Failures are collected (one input per (type, innermost frame) bucket) instead of crashing, so a
shallow defect does not end the campaign.  Results are written to <work>/stats.json.
"""
import argparse
import json
import os
import sys

ap = argparse.ArgumentParser()
ap.add_argument("--work", required=True)
ap.add_argument("--corpus", default="seeded")
ap.add_argument("--runs", type=int, default=100000)
ap.add_argument("--seed", type=int, default=1)
ap.add_argument("--max-len", type=int, default=256)
ap.add_argument("--oracle", default="totality", choices=["totality", "grammar"])
args = ap.parse_args()

try:
    import atheris
except ImportError:
    sys.stderr.write("atheris is not installed\n")
    sys.exit(3)

with atheris.instrument_imports(include=["jsonpath_rfc9535"]):
    import jsonpath_rfc9535 as jp

sys.path.insert(0, os.path.dirname(os.path.dirname(os.path.abspath(__file__))))
from vlib import lib  # noqa: E402
from vlib.runner import h64  # noqa: E402

BATTERY = [[None, True, 0, "", "a", [], {}, [1], {"a": 1}], {"a": {"a": [1, {"a": "x"}]}, "b": 0, "": None}, "a", 1]
TOKENS = ["$", "@", ".", "..", "[", "]", "(", ")", ",", ":", "?", "*", "!", "==", "!=", "<", "<=", ">", ">=", "&&", "||",
          "-", "0", "1", "-1", "1e400", "1e-1", "1.5", "e", "E", "'a'", '"a"', "\\u0041", "\\ud83d\\ude00", "\\n", "\\'",
          "true", "false", "null", "length(", "count(", "match(", "search(", "value(", " ", "\n", "\t", "\r", "a", "_",
          "[?@", "[?$", "[*]", "..*", "['a']", "[0:1:2]", "[::-1]", "(@.a)", "!@.a", "@.a==1", "'a*'", "'[a-z]'", "\\\\"]
SEEDS = ["$", "$.a", "$..a", "$.*", "$[0]", "$[-1]", "$[1:2:3]", "$[::-1]", "$['a','b']", '$["a"]', "$[*]", "$..[0,1]",
         "$[?@.a]", "$[?@.a == 1]", "$[?@.a != 'x' && @.b < 2]", "$[?!@.a || (@.b >= 1.5e2)]", "$[?length(@.a) == 2]",
         "$[?count(@.*) > 1]", "$[?match(@.a, 'a.*')]", "$[?search(@.a, '[a-z]')]", "$[?value(@..a) == null]",
         "$[?@[?@.a > 1]]", "$[?$.a == @.b]", "$.a[?@ == true]", "$ .a [ 0 ]", "$['\\u00e9\\n']", "$[?@.a == -0.5E-2]",
         "$..['a'][?@.b][0:2]", "$[?!(@.a == 1 && @.b)]", "$[?count(@[?@.a,?@.b]) == 1, 0]"]

state = {"n": 0, "compiled": 0, "failures": {}, "hashes": set(), "samples": []}


def write_stats():
    tmp = os.path.join(args.work, "stats.json.tmp")
    with open(tmp, "w") as f:
        json.dump({"executions": state["n"], "compiled": state["compiled"], "failures": list(state["failures"].values()),
                   "nontrivial_hashes": list(state["hashes"]), "samples": state["samples"]}, f)
    os.replace(tmp, os.path.join(args.work, "stats.json"))


def check(q):
    status, got = lib.compile_(q)
    if status == "err":
        if not got["jsonpath_error"] or not got["str_ok"]:
            return f"compile:{got['type']}:{got['frame']}"
        return None
    state["compiled"] += 1
    try:
        str(got)
    except Exception as e:  # noqa: BLE001
        return f"str:{type(e).__name__}"
    for v in BATTERY:
        st, r = lib.find(got, v)
        if st == "err" and (not r["jsonpath_error"] or not r["str_ok"]):
            return f"find:{r['type']}:{r['frame']}"
    return None


def check_grammar(q):
    """Membership oracle: reference VALID + well-typed => must compile; INVALID => must raise a JSONPathError."""
    from vlib import accept  # noqa: PLC0415
    from vlib.ref import abnf  # noqa: PLC0415

    v, _, _ = accept.verdict(q)
    if v not in ("VALID-WELLTYPED", abnf.INVALID):
        return None
    status, got = lib.compile_(q)
    if v == "VALID-WELLTYPED":
        state["compiled"] += 1
        if status != "ok":
            return f"refused-valid:{got['type']}:{got['frame']}:{got['str'].split(',')[0][:30]}"
        return None
    if status == "ok":
        return "accepted-invalid"
    return None


def test_one_input(data):
    state["n"] += 1
    q = data.decode("utf-8", "ignore")
    if args.oracle == "grammar":
        if q.startswith("$") and len(q) > 3 and len(state["hashes"]) < 200000:
            state["hashes"].add(h64(q))
            if len(state["samples"]) < 20 and state["n"] % 5000 == 0:
                state["samples"].append(q)
        bucket = check_grammar(q)
        if bucket is not None:
            key = bucket if bucket != "accepted-invalid" else bucket + ":" + str(len(state["failures"]) % 40)
            if key not in state["failures"] and len(state["failures"]) < 60:
                state["failures"][key] = q
                write_stats()
        if state["n"] % 50000 == 0 or state["n"] >= args.runs - 1:
            write_stats()
        return
    if q.startswith("$") and len(q) > 3 and len(state["hashes"]) < 200000:
        state["hashes"].add(h64(q))
        if len(state["samples"]) < 20 and state["n"] % 5000 == 0:
            state["samples"].append(q)
    bucket = check(q)
    if bucket is not None and bucket not in state["failures"]:
        state["failures"][bucket] = q
        write_stats()
    if state["n"] % 50000 == 0 or state["n"] >= args.runs - 1:
        write_stats()


os.makedirs(args.work, exist_ok=True)
corpus = os.path.join(args.work, "corpus")
os.makedirs(corpus, exist_ok=True)
if args.corpus == "seeded":
    for i, s in enumerate(SEEDS):
        with open(os.path.join(corpus, f"seed{i}"), "wb") as f:
            f.write(s.encode())
dict_path = os.path.join(args.work, "dict.txt")
with open(dict_path, "w") as f:
    for t in TOKENS:
        f.write('"' + "".join("\\x%02x" % b for b in t.encode()) + '"\n')
write_stats()
argv = [sys.argv[0], corpus, f"-runs={args.runs}", f"-seed={args.seed}", f"-max_len={args.max_len}", f"-dict={dict_path}",
        f"-artifact_prefix={args.work}/", "-verbosity=0", "-print_final_stats=0", "-timeout=60", "-rss_limit_mb=4096"]
atheris.Setup(argv, test_one_input)
atheris.Fuzz()
