"""Reference self-test against vectors extracted (once) from the repository's RFC-derived tests.

A vector on which the reference deliberately differs from the repository's expectation must be
listed in DEVIATIONS with the RFC clause that justifies it.
"""
from __future__ import annotations

import json
import os

from vlib.runner import HarnessError

DEVIATIONS = {
    # description / query -> reason
}


def run(quick=True):
    from vlib.ref import abnf, iregexp, normpath, typecheck
    from vlib.ref import evaluate as ev
    from vlib.ref.evaluate import BUILTINS, LOGICAL, NODES, VALUE

    path = os.path.join(os.path.dirname(os.path.abspath(__file__)), "selftest_vectors.json")
    v = json.load(open(path))
    bad = []
    for c in v["find"]:
        res = abnf.classify(c["query"])
        if res.verdict != abnf.VALID or typecheck.check(res.ast) is not None:
            bad.append(f"find vector {c['description']!r}: reference rejects {c['query']!r}: {res!r}")
            continue
        got = [val for _, val in ev.find(res.ast, c["data"])]
        if got != c["want"] and c["description"] not in DEVIATIONS:
            bad.append(f"find vector {c['description']!r}: {c['query']!r} gives {got!r}, the vector says {c['want']!r}")
    for c in v["paths"]:
        res = abnf.classify(c["query"])
        got = [normpath.render(loc) for loc, _ in ev.find(res.ast, c["data"])]
        if got != c["want"]:
            bad.append(f"path vector {c['description']!r}: {got!r} != {c['want']!r}")
        for p in got:
            if normpath.recognise(p) is None:
                bad.append(f"normalized path {p!r} not recognised")
    reg = dict(BUILTINS)
    reg.update({"foo": {"params": [NODES], "ret": NODES}, "bar": {"params": [VALUE], "ret": LOGICAL},
                "bn": {"params": [NODES], "ret": LOGICAL}, "bl": {"params": [LOGICAL], "ret": LOGICAL}})
    for c in v["welltyped"]:
        res = abnf.classify(c["query"])
        ok = res.verdict == abnf.VALID and typecheck.check(res.ast, reg) is None
        if ok != c["valid"] and c["description"] not in DEVIATIONS:
            bad.append(f"well-typedness vector {c['description']!r}: {c['query']!r} reference says {ok}, vector says {c['valid']}")
    for p in v["iregexp_valid"]:
        if not iregexp.valid(p) and "^" not in p and "$" not in p:
            bad.append(f"I-Regexp vector: reference rejects the valid pattern {p!r}")
    for p in v["iregexp_invalid"]:
        if iregexp.valid(p):
            bad.append(f"I-Regexp vector: reference accepts the invalid pattern {p!r}")
    for q in v["valid_queries"]:
        res = abnf.classify(q)
        if res.verdict == abnf.INVALID:
            bad.append(f"parse vector: reference rejects {q!r}: {res!r}")
    for c in v["rejected"]:
        res = abnf.classify(c["query"])
        ok = res.verdict == abnf.VALID and typecheck.check(res.ast) is None
        if ok:
            bad.append(f"rejected-query vector: reference accepts {c['query']!r}")
    if bad:
        raise HarnessError("reference self-test failed:\n  " + "\n  ".join(bad[:20]))
