"""Runner: seed/tier handling, sharding, collect-bucket-minimise, known findings, evidence.

    python -m vlib.runner C07 [--tier quick|thorough] [--replay PATH]

Exit codes: 0 held (possibly KNOWN-FINDING lines), 1 VIOLATION, 2 harness error.
"""
from __future__ import annotations

import collections
import hashlib
import importlib
import json
import multiprocessing as mp
import os
import sys
import time
import traceback

VERIF = os.path.dirname(os.path.dirname(os.path.abspath(__file__)))
REPO = os.path.realpath(os.environ.get("VERIF_REPO", "/repo"))
NPROC = int(os.environ.get("VERIF_NPROC", "16"))
MAX_SAMPLES = 12
KEEP_PER_BUCKET = 4


class HarnessError(Exception):
    """Something is wrong with the machinery, not with the code under test."""


def h64(obj) -> int:
    """Stable 64-bit hash of a JSON-able key."""
    if not isinstance(obj, (str, bytes)):
        obj = json.dumps(obj, sort_keys=True, ensure_ascii=True, default=repr)
    if isinstance(obj, str):
        obj = obj.encode("utf-8", "surrogatepass")
    return int.from_bytes(hashlib.blake2b(obj, digest_size=8).digest(), "big")


class Shard:
    """Accumulates what one shard of a check did."""

    def __init__(self, index: int = 0):
        self.index = index
        self.evaluations = 0
        self.nontrivial = set()          # 64-bit hashes of distinct non-trivial cases
        self.nontrivial_by_construction = 0  # distinct by enumeration, not hashed
        self.classes = collections.Counter()
        self.excluded = collections.Counter()
        self.samples = []
        self.buckets = {}                # bucket -> {"count": n, "cases": [(size, case, failure)]}
        self.exhaustive = {}             # name -> description of a fully enumerated sub-domain
        self.notes = collections.Counter()
        self.sets = collections.defaultdict(set)   # name -> set of hashes (sizes reported in the evidence)
        self._sample_stride = 1

    # -- per case ---------------------------------------------------------
    def case(self, key=None, nontrivial=False, classes=(), sample=None, n=1):
        self.evaluations += n
        if nontrivial:
            if key is None:
                self.nontrivial_by_construction += n
            else:
                self.nontrivial.add(key if isinstance(key, int) else h64(key))
        for c in classes:
            self.classes[c] += n
        if sample is not None and nontrivial:
            # reservoir-free: keep a spread of early and late samples
            if self.evaluations % self._sample_stride == 0:
                self.samples.append(sample)
                if len(self.samples) > MAX_SAMPLES:
                    self.samples = self.samples[::2]
                    self._sample_stride *= 2

    def fail(self, bucket: str, case, failure: dict, size=None):
        if size is None:
            size = len(json.dumps(case, default=repr))
        b = self.buckets.setdefault(bucket, {"count": 0, "cases": []})
        b["count"] += 1
        cases = b["cases"]
        cases.append((size, case, failure))
        if len(cases) > KEEP_PER_BUCKET * 4:
            cases.sort(key=lambda t: t[0])
            del cases[KEEP_PER_BUCKET:]

    def to_dict(self):
        for b in self.buckets.values():
            b["cases"].sort(key=lambda t: t[0])
            del b["cases"][KEEP_PER_BUCKET:]
        return {
            "index": self.index,
            "evaluations": self.evaluations,
            "nontrivial": self.nontrivial,
            "nbc": self.nontrivial_by_construction,
            "classes": self.classes,
            "excluded": self.excluded,
            "samples": self.samples[:MAX_SAMPLES],
            "buckets": self.buckets,
            "exhaustive": self.exhaustive,
            "notes": self.notes,
            "sets": dict(self.sets),
        }


INTERPRETERS = {
    # name -> (extra interpreter flags, extra environment): the same check under another interpreter configuration
    "python-O": (["-O"], {}),
    "no-int-digit-limit": ([], {"PYTHONINTMAXSTRDIGITS": "0"}),
    "C-locale-no-utf8-mode": ([], {"LC_ALL": "C", "LANG": "C", "PYTHONUTF8": "0", "PYTHONCOERCECLOCALE": "0",
                                    "PYTHONIOENCODING": "utf-8"}),
    "dev-mode": (["-X", "dev"], {}),
}


def _run_shard_in_child(modname, spec):
    """Run the shard in a child interpreter started with other flags / environment variables."""
    import pickle
    import subprocess
    import tempfile

    flags, extra = INTERPRETERS[spec["interp"]]
    child_spec = {k: v for k, v in spec.items() if k != "interp"}
    child_spec["interp_name"] = spec["interp"]
    with tempfile.TemporaryDirectory(prefix="shard.", dir="/tmp") as d:
        sf, of = os.path.join(d, "spec.json"), os.path.join(d, "out.pickle")
        with open(sf, "w") as f:
            json.dump(child_spec, f)
        env = dict(os.environ, **extra)
        cmd = [sys.executable, "-X", "utf8"] if "PYTHONUTF8" not in extra else [sys.executable]
        p = subprocess.run(cmd + flags + ["-m", "vlib.shard_child", modname, sf, of], env=env, cwd=VERIF,
                           capture_output=True, text=True)
        if not os.path.exists(of):
            return ("harness-error", f"child interpreter ({spec['interp']}) failed:\n{p.stderr[-3000:]}")
        with open(of, "rb") as f:
            res = pickle.load(f)
    if res[0] == "ok":
        r = res[1]
        r["classes"] = collections.Counter({f"{k}": v for k, v in r["classes"].items()})
        r["classes"]["interpreter:" + spec["interp"]] += r["evaluations"]
        for b in r["buckets"].values():
            for _size, case, failure in b["cases"]:
                failure["what"] = f"[under {spec['interp']}] " + failure.get("what", "")
                if isinstance(case, dict):
                    case["interp"] = spec["interp"]
    return res


RUN_ID = f"{os.getpid()}"
INFLIGHT_DIR = os.path.join(VERIF, "out", "inflight")


class inflight:
    """`with inflight(case, seconds):` - a hard wall-clock ceiling for one case whose body may get stuck inside C code,
    where no Python-level timer or signal handler can interrupt it (e.g. 10**99999999).  A watchdog thread of the
    interpreter (faulthandler) ends the worker process when the ceiling is passed; the case was written to a file
    first, and the parent turns it into a reported failure instead of a hang of the whole check."""

    _handles = {}
    _armed_at = -1e9

    def __init__(self, case, seconds):
        self.case, self.seconds = case, seconds

    @classmethod
    def _handle(cls):
        pid = os.getpid()
        h = cls._handles.get(pid)
        if h is None:
            os.makedirs(INFLIGHT_DIR, exist_ok=True)
            path = os.path.join(INFLIGHT_DIR, f"{os.environ.get('VERIF_RUN_ID', RUN_ID)}-{pid}.json")
            cls._handles.clear()          # (handles inherited from the parent by fork belong to the parent)
            h = cls._handles[pid] = (open(path, "w", encoding="utf-8"), open(os.devnull, "w"))
        return h

    def __enter__(self):
        import faulthandler
        f, log = self._handle()
        f.seek(0)
        f.write(json.dumps({"case": self.case, "seconds": self.seconds}, default=repr))
        f.truncate()
        f.flush()
        # (arming starts a watchdog thread, which is too dear to do per case: the deadline is renewed at most every
        # ten seconds, so a stuck call is ended between seconds-10 and seconds after it began; _run_shard disarms)
        now = time.monotonic()
        if now - inflight._armed_at > 10:
            faulthandler.dump_traceback_later(self.seconds, exit=True, file=log)
            inflight._armed_at = now
        return self

    def __exit__(self, *a):
        f, _ = self._handle()
        f.seek(0)
        f.truncate()          # empty file: nothing in flight
        f.flush()
        return False


def _collect_inflight():
    """Cases that were being examined by workers that are gone (killed by the watchdog, or crashed)."""
    out = []
    rid = os.environ.get("VERIF_RUN_ID", RUN_ID)
    if not os.path.isdir(INFLIGHT_DIR):
        return out
    for name in sorted(os.listdir(INFLIGHT_DIR)):
        if name.startswith(rid + "-") and name.endswith(".json"):
            full = os.path.join(INFLIGHT_DIR, name)
            try:
                with open(full, encoding="utf-8") as f:
                    text = f.read()
                if text.strip():
                    out.append(json.loads(text))
            except Exception:  # noqa: BLE001
                pass
            try:
                os.unlink(full)
            except OSError:
                pass
    return out


def _limit_memory():
    """Address-space ceiling per shard worker: a runaway case becomes a MemoryError (harness error, exit 2) in that
    worker instead of exhausting the machine."""
    import resource
    gb = float(os.environ.get("VERIF_MEM_GB", "6"))
    if gb > 0:
        lim = int(gb * 2**30)
        soft, hard = resource.getrlimit(resource.RLIMIT_AS)
        if hard == resource.RLIM_INFINITY or lim < hard:
            resource.setrlimit(resource.RLIMIT_AS, (lim, hard))


_COV = {"seen": None}


def _coverage_start():
    """VERIF_COVERAGE=<dir>: record which lines of the package under test the shard executes (sys.monitoring, each
    line event switched off after its first hit).  A measuring aid for tools/coverage.py, not part of any verdict."""
    d = os.environ.get("VERIF_COVERAGE")
    if not d or not hasattr(sys, "monitoring"):
        return None
    if _COV["seen"] is not None:
        return _COV["seen"]
    mon = sys.monitoring
    seen = set()

    def on_line(code, lineno):
        if "jsonpath_rfc9535" in code.co_filename:
            seen.add((code.co_filename.rsplit("jsonpath_rfc9535", 1)[1].lstrip("/"), lineno))
        return mon.DISABLE

    try:
        mon.use_tool_id(mon.COVERAGE_ID, "verif-coverage")
    except ValueError:
        return None
    mon.register_callback(mon.COVERAGE_ID, mon.events.LINE, on_line)
    mon.set_events(mon.COVERAGE_ID, mon.events.LINE)
    _COV["seen"] = seen
    return seen


def _coverage_dump(seen, modname, spec):
    if seen is None:
        return
    d = os.environ["VERIF_COVERAGE"]
    os.makedirs(d, exist_ok=True)
    name = f"{modname.split('.')[-1]}-{spec.get('shard', 0)}-{spec.get('interp_name', 'main')}-{os.getpid()}.json"
    with open(os.path.join(d, name), "w") as f:
        json.dump(sorted(seen), f)


def _run_shard(args, in_child=False):
    modname, spec = args
    if spec.get("interp") and not in_child:
        return _run_shard_in_child(modname, spec)
    try:
        cov = _coverage_start()
        mod = importlib.import_module(modname)
        shard = Shard(spec.get("shard", 0))
        try:
            mod.run_shard(spec, shard)
        finally:
            import faulthandler
            faulthandler.cancel_dump_traceback_later()
            inflight._armed_at = -1e9
            _coverage_dump(cov, modname, spec)
        return ("ok", shard.to_dict())
    except BaseException:  # noqa: BLE001 - reported as harness error by the parent
        return ("harness-error", traceback.format_exc())


def merge(results):
    out = Shard()
    for r in results:
        out.evaluations += r["evaluations"]
        out.nontrivial |= r["nontrivial"]
        out.nontrivial_by_construction += r["nbc"]
        out.classes.update(r["classes"])
        out.excluded.update(r["excluded"])
        out.notes.update(r["notes"])
        out.exhaustive.update(r["exhaustive"])
        for k, v in r.get("sets", {}).items():
            out.sets[k] |= v
        k = max(1, MAX_SAMPLES // max(1, len(results)) + 1)
        smp = r["samples"]
        # the first example of every Hypothesis run is the same minimal one: prefer later samples
        out.samples.extend(smp[1:1 + k] if len(smp) > k else smp[:k])
        for k, b in r["buckets"].items():
            ob = out.buckets.setdefault(k, {"count": 0, "cases": []})
            ob["count"] += b["count"]
            ob["cases"].extend(b["cases"])
    for b in out.buckets.values():
        b["cases"].sort(key=lambda t: t[0])
        del b["cases"][KEEP_PER_BUCKET:]
    seen, uniq = set(), []
    for smp in out.samples:
        k = h64(smp)
        if k not in seen:
            seen.add(k)
            uniq.append(smp)
    out.samples = uniq[:MAX_SAMPLES]
    return out


# ---------------------------------------------------------------- known findings
def load_known(prop: str):
    """Return (open findings, fixed entries) for a property."""
    path = os.path.join(VERIF, "known_findings.txt")
    opens, fixed = [], []
    if not os.path.exists(path):
        return opens, fixed
    with open(path, encoding="utf-8") as f:
        for line in f:
            line = line.strip()
            if not line or line.startswith("#"):
                continue
            if line.startswith("open:"):
                parts = line[5:].split()
                d = {}
                rest = []
                for p in parts:
                    if not rest and "=" in p and p.split("=", 1)[0] in ("property", "sig", "witness"):
                        k, v = p.split("=", 1)
                        d[k] = v
                    else:
                        rest.append(p)
                d["text"] = " ".join(rest)
                if d.get("property") == prop:
                    opens.append(d)
            elif line.startswith("fixed:"):
                if f"property={prop}" in line.split():
                    fixed.append(line)
    return opens, fixed


def check_repo_import():
    import jsonpath_rfc9535  # noqa: PLC0415

    got = os.path.realpath(jsonpath_rfc9535.__file__)
    if not got.startswith(REPO + os.sep):
        raise HarnessError(f"jsonpath_rfc9535 imported from {got}, expected under {REPO}")


def write_replay(prop: str, sig: str, case, failure) -> str:
    outdir = os.path.join(VERIF, "out")
    os.makedirs(outdir, exist_ok=True)
    name = f"{prop}-{h64(sig):016x}.json"
    path = os.path.join(outdir, name)
    with open(path, "w", encoding="utf-8") as f:
        json.dump({"property": prop, "sig": sig, "case": case, "failure": failure}, f,
                  indent=1, ensure_ascii=True, default=repr)
    return path


def load_case(path: str):
    with open(path, encoding="utf-8") as f:
        d = json.load(f)
    return d["case"] if isinstance(d, dict) and "case" in d else d


def main(argv=None) -> int:
    argv = list(sys.argv[1:] if argv is None else argv)
    if not argv:
        print("usage: check <PROPERTY> [--tier quick|thorough] [--replay PATH]", file=sys.stderr)
        return 2
    prop = argv.pop(0).upper()
    os.environ.setdefault("VERIF_RUN_ID", RUN_ID)
    tier = os.environ.get("VERIF_TIER", "quick")
    replay = None
    while argv:
        a = argv.pop(0)
        if a == "--tier":
            tier = argv.pop(0)
        elif a.startswith("--tier="):
            tier = a.split("=", 1)[1]
        elif a == "--replay":
            replay = argv.pop(0)
        elif a.startswith("--replay="):
            replay = a.split("=", 1)[1]
        else:
            print(f"unknown argument {a}", file=sys.stderr)
            return 2
    if tier not in ("quick", "thorough"):
        tier = "quick"
    try:
        seed = int(os.environ.get("VERIF_SEED", "1") or "1")
    except ValueError:
        seed = 1
    t0 = time.time()
    try:
        return _main(prop, tier, seed, replay, t0)
    except HarnessError as e:
        print(f"HARNESS-ERROR property={prop}: {e}", file=sys.stderr)
        return 2
    except Exception:  # noqa: BLE001
        traceback.print_exc()
        print(f"HARNESS-ERROR property={prop}: unexpected exception in the harness", file=sys.stderr)
        return 2


def _main(prop, tier, seed, replay, t0) -> int:
    check_repo_import()
    modname = f"checks.{prop.lower()}"
    try:
        mod = importlib.import_module(modname)
    except ModuleNotFoundError as e:
        raise HarnessError(f"no check module for {prop}: {e}") from e

    from vlib import selftest  # noqa: PLC0415

    selftest.run(quick=True)

    if replay:
        case = load_case(replay)
        if isinstance(case, dict) and case.get("interp") and not os.environ.get("VERIF_IN_VARIANT"):
            # the case was found under another interpreter configuration: replay it there
            import subprocess
            flags, extra = INTERPRETERS[case["interp"]]
            cmd = [sys.executable] + (["-X", "utf8"] if "PYTHONUTF8" not in extra else []) + flags
            return subprocess.run(cmd + ["-m", "vlib.runner", prop, "--replay", replay],
                                  env=dict(os.environ, VERIF_IN_VARIANT="1", **extra), cwd=VERIF).returncode
        failure = mod.examine(case)
        if failure is None:
            print(f"replay: property={prop} holds on {replay}")
            return 0
        sig = mod.signature(case, failure)
        print(f"replay: property={prop} sig={sig} {failure.get('what', '')}")
        print(f"  expected: {json.dumps(failure.get('expected'), default=repr)[:2000]}")
        print(f"  observed: {json.dumps(failure.get('observed'), default=repr)[:2000]}")
        print(f"VIOLATION property={prop} replay={replay}")
        return 1

    opens, fixed = load_known(prop)
    stale = []
    for o in opens:
        w = o.get("witness")
        if not w:
            continue
        wcase = load_case(os.path.join(VERIF, w))
        f = mod.examine(wcase)
        if f is None or mod.signature(wcase, f) != o["sig"]:
            stale.append(o)
            print(f"NOTE: known finding no longer reproduces from its witness: property={prop} sig={o['sig']}")

    specs = mod.plan(tier, seed)
    for i, s in enumerate(specs):
        s.setdefault("shard", i)
        s.setdefault("tier", tier)
        s.setdefault("seed", seed * 1000 + i)
    nproc = min(NPROC, len(specs))
    if nproc <= 1:
        results = [_run_shard((modname, s)) for s in specs]
    else:
        # a worker killed from outside (e.g. by the kernel's OOM killer) must end the run with a harness error,
        # not hang it: ProcessPoolExecutor reports a broken pool, multiprocessing.Pool waits for ever
        from concurrent.futures import ProcessPoolExecutor
        from concurrent.futures.process import BrokenProcessPool
        ctx = mp.get_context("fork")
        try:
            with ProcessPoolExecutor(nproc, mp_context=ctx, initializer=_limit_memory) as pool:
                # last line of defence against a run that never ends (a library call stuck in C code in a check that
                # has no per-case watchdog): after VERIF_CHECK_TIMEOUT seconds the workers are killed and the run
                # ends as a harness error (exit 2) - inconclusive, never a verdict
                limit = float(os.environ.get("VERIF_CHECK_TIMEOUT", "2700" if tier == "quick" else "21600"))

                def _give_up():
                    print(f"HARNESS-ERROR property={prop}: no result after {limit:.0f} s of wall clock; workers killed, nothing is concluded", flush=True)
                    for pr in list(getattr(pool, "_processes", {}).values()):
                        try:
                            pr.kill()
                        except Exception:  # noqa: BLE001
                            pass
                    os._exit(2)
                import threading
                timer = threading.Timer(limit, _give_up)
                timer.daemon = True
                timer.start()
                try:
                    results = list(pool.map(_run_shard, [(modname, s) for s in specs], chunksize=1))
                finally:
                    timer.cancel()
        except BrokenProcessPool as e:
            stuck = _collect_inflight()
            if not stuck:
                raise HarnessError(f"a shard worker died ({e}); nothing is concluded from this run") from e
            # workers were ended by the per-case watchdog (or crashed) while examining these cases: that is a
            # result about the code under test, reported like any other failure (the other shards' counts are lost)
            sh_ = Shard()
            for item in stuck:
                case = item["case"]
                sh_.case(key=h64(case), nontrivial=True, classes={"stuck-or-crashed"}, sample=None)
                sh_.fail("stuck-or-crashed", case,
                         {"bucket": "stuck-or-crashed", "what": f"a worker had to be ended after {item.get('seconds')} s of wall clock inside one "
                          f"call into the library (no Python-level timer could interrupt it), or it crashed, on: {json.dumps(case, default=repr)[:300]}",
                          "expected": "the call returns or raises", "observed": "no return"})
            sh_.notes["counts-of-the-other-shards-lost-because-the-pool-broke"] += 1
            results = [("ok", sh_.to_dict())]
    _collect_inflight()      # (remove this run's now empty in-flight files)
    bad = [r[1] for r in results if r[0] != "ok"]
    if bad:
        raise HarnessError("shard failed:\n" + bad[0])
    total = merge([r[1] for r in results])

    # ---- minimise one representative per bucket, compute signatures, match known findings
    by_sig = {}
    for bucket in sorted(total.buckets):
        b = total.buckets[bucket]
        reps = b["cases"][: (2 if tier == "quick" else KEEP_PER_BUCKET)]
        for _size, case, failure in reps:
            mcase, mfailure = case, failure
            if hasattr(mod, "minimise") and bucket != "stuck-or-crashed":
                try:
                    mcase, mfailure = mod.minimise(case, failure, tier)
                except Exception:  # noqa: BLE001 - minimisation is best effort
                    traceback.print_exc()
                    mcase, mfailure = case, failure
            sig = mod.signature(mcase, mfailure)
            e = by_sig.setdefault(sig, {"count": 0, "case": mcase, "failure": mfailure, "buckets": set()})
            if bucket not in e["buckets"]:
                e["buckets"].add(bucket)
                e["count"] += b["count"]

    known_by_sig = {o["sig"]: o for o in opens}
    violations = []
    known_hit = []
    for sig in sorted(by_sig):
        e = by_sig[sig]
        if sig in known_by_sig:
            o = known_by_sig[sig]
            known_hit.append({"sig": sig, "count": e["count"], "text": o["text"]})
            print(f"KNOWN-FINDING: property={prop} {o['text']} [sig={sig} cases={e['count']}]")
        else:
            path = write_replay(prop, sig, e["case"], e["failure"])
            violations.append({"sig": sig, "count": e["count"], "replay": path,
                               "what": e["failure"].get("what", "")})
    # an open finding that was not hit by generation but still reproduces from its witness
    for o in opens:
        if o["sig"] not in by_sig and o not in stale:
            print(f"KNOWN-FINDING: property={prop} {o['text']} [sig={o['sig']} witness-only]")
            known_hit.append({"sig": o["sig"], "count": 0, "text": o["text"]})

    wall = time.time() - t0
    distinct = len(total.nontrivial) + total.nontrivial_by_construction
    evidence = {
        "property_id": prop,
        "tier": tier,
        "seed": seed,
        "level": "exploration",
        "coverage": {
            "evaluations": total.evaluations,
            "distinct_nontrivial": distinct,
            "rule": getattr(mod, "RULE", ""),
            "samples": total.samples[:MAX_SAMPLES],
            "classes": dict(sorted(total.classes.items())),
            "excluded_by_known_finding": dict(sorted(total.excluded.items())),
            "exhaustive": bool(total.exhaustive) and getattr(mod, "WHOLLY_EXHAUSTIVE", False),
            "exhaustive_subdomains": total.exhaustive,
            "notes": dict(sorted(total.notes.items())),
            "distinct_counts": {k: len(v) for k, v in sorted(total.sets.items())},
            "shards": len(specs),
            "known_findings_hit": known_hit,
            "violation_details": [{k: v for k, v in x.items()} for x in violations],
        },
        "assumptions": list(getattr(mod, "ASSUMPTIONS", [])),
        "wall_s": round(wall, 2),
        "violations": len(violations),
    }
    # evidence/ describes runs against /repo itself; a run pointed at a scratch copy (sensitivity experiments with
    # VERIF_REPO) writes its record under out/ instead and never touches the committed evidence
    scratch = os.path.realpath(os.environ.get("VERIF_REPO", "/repo")) != os.path.realpath("/repo")
    edir = os.path.join(VERIF, "out", "evidence-scratch") if scratch else os.path.join(VERIF, "evidence")
    os.makedirs(edir, exist_ok=True)
    with open(os.path.join(edir, f"{prop}.json"), "w", encoding="utf-8") as f:
        json.dump(evidence, f, indent=1, ensure_ascii=True, default=repr)
        f.write("\n")

    print(f"{prop} tier={tier} seed={seed}: {total.evaluations} cases, {distinct} distinct non-trivial, "
          f"{len(violations)} new violation signature(s), {len(known_hit)} known finding(s), {wall:.1f}s")
    if total.evaluations == 0 or distinct < 2:
        raise HarnessError("the check generated no non-trivial cases")
    for v in violations:
        print(f"  {v['what']} (x{v['count']})")
        print(f"VIOLATION property={prop} replay={v['replay']}")
    return 1 if violations else 0


if __name__ == "__main__":
    sys.exit(main())
