"""Hypothesis driving: every random choice comes from Hypothesis; bodies never raise."""
from __future__ import annotations

import hypothesis
from hypothesis import HealthCheck, Phase, given, settings
from hypothesis import strategies as st  # noqa: F401  (re-exported)


def _no_gc_timing():
    """Hypothesis times garbage collections with a gc callback (for its deadline accounting, which is switched off
    here).  When a case deliberately runs a frame away from the recursion limit that callback itself hits
    RecursionError and the interpreter prints 'Exception ignored in ...' on standard error.  Keep it from being
    installed: nothing here uses deadlines."""
    try:
        from hypothesis.internal.conjecture import junkdrawer
        if hasattr(junkdrawer, "_gc_initialized"):
            junkdrawer._gc_initialized = True
    except Exception:  # noqa: BLE001 - cosmetic only
        pass


_no_gc_timing()


def drive(strategy, n, seed, body, shrink=False):
    """Run body(x) on n examples drawn from strategy, deterministically from seed."""
    phases = [Phase.generate] + ([Phase.shrink] if shrink else [])

    @hypothesis.seed(seed)
    @settings(max_examples=n, database=None, deadline=None, derandomize=False,
              report_multiple_bugs=False, phases=phases,
              suppress_health_check=[HealthCheck.too_slow, HealthCheck.data_too_large,
                                     HealthCheck.large_base_example])
    @given(strategy)
    def _t(x):
        body(x)

    _t()


def rng():
    """Strategy for a random.Random whose seed is drawn by Hypothesis.

    `use_true_random=True` gives the usual uniform distributions (the Hypothesis-generated
    variant is heavily biased towards 0 and repeated values, which starves the interesting
    classes); the stream is still a pure function of the Hypothesis seed.
    """
    return st.randoms(use_true_random=True)
