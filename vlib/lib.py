"""Thin access layer to the code under test (imported from VERIF_REPO at run time)."""
from __future__ import annotations

import traceback

import jsonpath_rfc9535 as jp
from jsonpath_rfc9535 import JSONPathEnvironment
from jsonpath_rfc9535.exceptions import JSONPathError

DEFAULT_ENV = jp.DEFAULT_ENV


def exc_info(e: BaseException) -> dict:
    """Describe an exception: type, whether it is a JSONPathError, innermost package frame."""
    frame = None
    tb = e.__traceback__
    while tb is not None:
        fn = tb.tb_frame.f_code.co_filename
        if "jsonpath_rfc9535" in fn:
            frame = f"{fn.rsplit('jsonpath_rfc9535', 1)[1].lstrip('/')}:{tb.tb_frame.f_code.co_name}"
        tb = tb.tb_next
    try:
        s = str(e)
        str_ok = True
    except Exception as e2:  # noqa: BLE001
        s = f"<str() raised {type(e2).__name__}>"
        str_ok = False
    return {
        "type": type(e).__name__,
        "jsonpath_error": isinstance(e, JSONPathError),
        "frame": frame,
        "str": s[:300],
        "str_ok": str_ok,
    }


import os as _os

HOST_STACK = _os.environ.get("VERIF_HOST_STACK", "1") == "1"   # library calls see the stack head-room of a host program


def compile_(query: str, env=None):
    """Return ("ok", compiled) or ("err", info)."""
    env = env or DEFAULT_ENV
    if HOST_STACK:
        with host_stack():
            try:
                return "ok", env.compile(query)
            except RecursionError as e:
                return "err", exc_info(e)
            except Exception as e:  # noqa: BLE001
                return "err", exc_info(e)
    try:
        return "ok", env.compile(query)
    except RecursionError as e:
        return "err", exc_info(e)
    except Exception as e:  # noqa: BLE001
        return "err", exc_info(e)


def nodes_of(nodelist):
    return [(tuple(n.location), n.value) for n in nodelist]


def find(query, doc, env=None):
    """Return ("ok", [(location, value)...]) or ("err", info). query may be text or compiled."""
    env = env or DEFAULT_ENV
    if HOST_STACK:
        with host_stack():
            try:
                q = env.compile(query) if isinstance(query, str) else query
                return "ok", nodes_of(q.find(doc))
            except Exception as e:  # noqa: BLE001
                return "err", exc_info(e)
    try:
        q = env.compile(query) if isinstance(query, str) else query
        return "ok", nodes_of(q.find(doc))
    except Exception as e:  # noqa: BLE001
        return "err", exc_info(e)


def make_env(nondeterministic=False, max_recursion_depth=None, min_int=None, max_int=None,
             functions=None, keep_builtins=True):
    attrs = {"nondeterministic": nondeterministic}
    if max_recursion_depth is not None:
        attrs["max_recursion_depth"] = max_recursion_depth
    if min_int is not None:
        attrs["min_int_index"] = min_int
    if max_int is not None:
        attrs["max_int_index"] = max_int
    cls = type("VerifEnv", (JSONPathEnvironment,), attrs)
    env = cls()
    if not keep_builtins:
        env.function_extensions.clear()
    for name, fn in (functions or {}).items():
        env.function_extensions[name] = fn
    return env


def loc_jsonable(loc):
    return list(loc)


# ---------------------------------------------------------------------------------------------------------------
# ambient process state and object lifetime (round-3 dimensions)
import contextlib  # noqa: E402


@contextlib.contextmanager
def default_env_sandbox():
    """Let a case reconfigure the package's DEFAULT_ENV / the JSONPathEnvironment class and put everything back."""
    env = jp.DEFAULT_ENV
    reg = env.function_extensions
    saved_reg = list(reg.items())
    saved_inst = dict(env.__dict__)
    names = ("max_int_index", "min_int_index", "max_recursion_depth", "nondeterministic")
    saved_cls = {n: JSONPathEnvironment.__dict__[n] for n in names if n in JSONPathEnvironment.__dict__}
    try:
        yield env
    finally:
        for n in names:
            if n in saved_cls:
                setattr(JSONPathEnvironment, n, saved_cls[n])
            elif n in JSONPathEnvironment.__dict__:
                delattr(JSONPathEnvironment, n)
        for k in list(env.__dict__):
            if k not in saved_inst:
                del env.__dict__[k]
        env.__dict__.update(saved_inst)
        reg = env.function_extensions
        reg.clear()
        for k, v in saved_reg:
            reg[k] = v


def at_depth(n, fn):
    """Call fn() with n extra Python frames below it (an application made from deep inside a host program)."""
    if n <= 0:
        return fn()
    return at_depth(n - 1, fn)


AMBIENTS = ("default", "decimal-prec-3", "decimal-prec-6-floor", "decimal-prec-1-traps", "decimal-prec-50")
# process-wide defaults of the third-party regex package that a host application may have changed
REGEX_AMBIENTS = ("regex-default-version-1", "regex-default-flags-ignorecase-cleared")


@contextlib.contextmanager
def ambient(kind):
    """Process-wide settings a host application may have changed and that the package never documents depending
    on: the thread's decimal context.  Everything is restored on exit."""
    import decimal
    if kind in (None, "default"):
        yield
        return
    if kind.startswith("regex-"):
        import regex
        saved = regex.DEFAULT_VERSION
        try:
            if kind == "regex-default-version-1":
                regex.DEFAULT_VERSION = regex.VERSION1
            else:
                regex.DEFAULT_VERSION = regex.VERSION0
            yield
        finally:
            regex.DEFAULT_VERSION = saved
        return
    with decimal.localcontext() as ctx:
        if kind == "decimal-prec-3":
            ctx.prec = 3
        elif kind == "decimal-prec-6-floor":
            ctx.prec = 6
            ctx.rounding = decimal.ROUND_FLOOR
        elif kind == "decimal-prec-1-traps":
            ctx.prec = 1
            ctx.traps[decimal.Inexact] = True
            ctx.traps[decimal.Rounded] = True
        elif kind == "decimal-prec-50":
            ctx.prec = 50
            ctx.Emax = 99
            ctx.Emin = -99
        yield


class host_stack:
    """The harness raises the interpreter's recursion limit for its own (recursive) reference parsers.  Library calls
    made inside this context see what a host program with the default limit of 1000 would give them: about 950
    frames of headroom below the current frame."""

    def __init__(self, headroom=950):
        self.headroom = headroom

    def __enter__(self):
        import sys
        f, here = sys._getframe(), 0
        while f is not None:
            here, f = here + 1, f.f_back
        self.saved = sys.getrecursionlimit()
        sys.setrecursionlimit(here + self.headroom)
        return self

    def __exit__(self, *a):
        import sys
        sys.setrecursionlimit(self.saved)
        return False
