"""Shared differential machinery: (query text, reference AST, document) cases.

A case is JSON-able: {"q": text, "ast": ast, "doc": doc, ...}.  The library gets the
text, the reference evaluator gets the AST; when a text is shrunk the AST is re-derived
with the reference parser (only VALID, well-typed texts are kept).
"""
from __future__ import annotations

from vlib import lib, shrink
from vlib.gen import queries as Q
from vlib.gen import values as V
from vlib.ref import abnf, typecheck
from vlib.ref import evaluate as ev
from vlib.runner import HarnessError

# Finding R (a function argument that starts with "!" or "(" was refused) has been repaired in
# /repo; the exclusion switch stays for replaying against older trees.
EXCLUDE_R = False


def arg_starts_with_not_or_paren(ast) -> bool:
    for x in Q.walk(ast):
        if x and x[0] == "call":
            for a in x[2]:
                if a and a[0] in ("not", "paren"):
                    return True
                if a and a[0] in ("and", "or") and _first_basic(a)[0] in ("not", "paren"):
                    return True
    return False


def _first_basic(e):
    while e[0] in ("and", "or"):
        e = e[1][0]
    return e


def make_query(r, shard, filters=True, names=None, strings=None, registry=None, min_segs=1, max_segs=4,
               blank_p=0.15, max_filter_depth=2, big_ints=False, tries=20, doc=None, hit_p=0.8, root_p=0.015):
    """Generate (ast, text, used) with triangulation; counts exclusions on shard.

    With doc given, names/strings/numbers of the document feed the generator and the
    segments are guided so that most selectors hit.
    """
    if r.random() < root_p:
        return ["q", "$", []], "$", set()     # the query with no segments at all: its only node is the root
    numbers = None
    big_doc = doc is not None and V.count_nodes(doc) > 120
    if doc is not None:
        dn, ds, numbers = Q.pools(doc)
        names = (list(dict.fromkeys(dn))[:12] + list(names or ["a", "b"])[:3]) or ["a"]
        strings = list(dict.fromkeys(ds))[:8] + list(strings or ["", "a", "zz"])[:3]
    for _ in range(tries):
        g = Q.QGen(r, names=names, strings=strings, registry=registry, filters=filters,
                   max_filter_depth=max_filter_depth, big_ints=big_ints, numbers=numbers)
        if doc is not None:
            g.doc = doc
            g.evalr = ev.Evaluator(registry)
            if big_doc:
                g.cheap_filters = True
                g.max_filter_depth = 1
        if doc is not None and r.random() < 0.85:
            ast = g.guided_query(doc, min_segs=max(1, min_segs), max_segs=max_segs, hit_p=hit_p)
        else:
            ast = g.query(min_segs=min_segs, max_segs=max_segs)
        if EXCLUDE_R and arg_starts_with_not_or_paren(ast):
            shard.excluded["R:function-argument-starting-with-!-or-("] += 1
            continue
        rd = Q.Renderer(r, blank_p)
        text = rd.query(ast)
        res = abnf.classify(text)
        plain = Q.strip_hints(ast)
        if res.verdict == abnf.DISPUTED:
            shard.notes["disputed-generated"] += 1
            continue
        if res.verdict != abnf.VALID or res.ast != plain:
            raise HarnessError(f"triangulation failed: rendered {text!r} parses to {res!r}, generated {plain!r}")
        tc = typecheck.check(plain, registry)
        if tc is not None:
            raise HarnessError(f"generator produced an ill-typed query {text!r}: {tc}")
        return plain, text, rd.used
    raise HarnessError("could not generate a query outside the excluded regions")


def guided_filter_segment(r, g, base_segs, doc, registry=None, need=None, tries=8):
    """A segment [?expr] whose expression is guided by the children of a node that the base
    query really selects (so that the filter is applied to something and can be decisive)."""
    nodes = ev.Evaluator(registry).query(["q", "$", Q.strip_hints(base_segs)], doc)
    conts = [v for _, v in nodes if isinstance(v, (dict, list)) and len(v) >= 1]
    big = [v for v in conts if len(v) >= 2]
    target = r.choice(big or conts) if (big or conts) else None
    for _ in range(tries):
        sel = g.filter_for(target, 0) if target is not None else ["filter", g.logical(1, 2)]
        if need is None or need in Q.features(["q", "$", [["child", [sel]]]]):
            return [r.choice(["child", "child", "child", "desc"]) if target is None else "child", [sel]]
    return None


def make_doc(r, tier, names=None, strings=None, falsy_bias=0.25, wide_p=0.04):
    depth, nodes = (4, 25) if tier == "quick" else (6, 80)
    return V.container(r, depth=r.randrange(2, depth + 1), names=names, budget=[r.randrange(6, nodes)],
                       strings=strings, falsy_bias=falsy_bias, wide_p=wide_p)


_ND_ENV = []


def nd_env():
    if not _ND_ENV:
        _ND_ENV.append(lib.make_env(nondeterministic=True))
    return _ND_ENV[0]


def order_determined(ast, doc, registry=None):
    """In nondeterministic mode RFC 9535 leaves open only the order of object members (wildcard and filter selectors
    applied to an object) and the visiting order of descendant segments.  True if the query meets neither on this
    value: its result is then fully determined, mode or no mode."""
    segs = ast[2]
    for i, seg in enumerate(segs):
        if seg[0] == "desc":
            return False
        if any(sel[0] in ("wild", "filter") for sel in seg[1]):
            inputs = ev.find(["q", "$", segs[:i]], doc, registry)
            if any(isinstance(v, dict) and len(v) > 1 for _, v in inputs):
                return False
    return True


def examine_find(case, registry=None, env=None):
    """Differential: lib.find(text, doc) vs reference nodelist (locations + identity)."""
    q, ast, doc = case["q"], case["ast"], case["doc"]
    if case.get("alias"):
        # the same content with shared (aliased) sub-containers: a DAG, as programmatically built data often is
        doc = V.alias(doc, case["alias"])
    if case.get("exotic"):
        # the same data built from dict/list subclasses (OrderedDict, plain dict and list subclasses)
        doc = V.exotic(doc, case["exotic"])
    expected = ev.find(ast, doc, registry)
    multiset_only = False
    if case.get("nondet") and env is None and registry is None:
        # the same query on an environment in nondeterministic mode: same nodes always, same order whenever the RFC
        # leaves nothing open for this query on this value
        env = nd_env()
        multiset_only = not order_determined(ast, doc, registry)
    with lib.ambient(case.get("ambient")):
        if case.get("interrupted"):
            # the FIRST application of the freshly compiled query is made from deep inside a host program's stack and
            # may die of RecursionError part-way; the query object is then applied again from a normal stack
            status, got = lib.compile_(q, env)
            if status == "ok":
                cq = got
                import sys
                f, here = sys._getframe(), 0
                while f is not None:
                    here, f = here + 1, f.f_back
                try:
                    lib.at_depth(sys.getrecursionlimit() - here - case["interrupted"], lambda: cq.find(doc))
                except Exception:  # noqa: BLE001 - whatever ended the first application, only what follows is judged here
                    pass
                status, got = lib.find(cq, doc, env)
        else:
            status, got = lib.find(q, doc, env)
    if status == "err":
        return {"bucket": f"raised:{got['type']}:{got['frame']}",
                "what": f"find({q!r}) raised {got['type']}: {got['str']}",
                "expected": ev.show_nodes(expected), "observed": got}
    if multiset_only:
        key = lambda n: (repr(tuple(n[0])), id(n[1]))  # noqa: E731
        if sorted(map(key, expected)) == sorted(map(key, got)):
            return None
    if not ev.same_nodelist(expected, got):
        el = [l for l, _ in expected]
        gl = [tuple(l) for l, _ in got]
        if sorted(map(repr, el)) == sorted(map(repr, gl)):
            kind = "order"
        elif set(map(repr, el)) == set(map(repr, gl)):
            kind = "multiplicity"
        elif el == gl:
            kind = "value-identity"
        elif len(gl) < len(el):
            kind = "missing"
        elif len(gl) > len(el):
            kind = "extra"
        else:
            kind = "different"
        feats = sorted(Q.features(ast) & {"descendant", "filter", "slice", "call", "not", "or", "and", "cmp",
                                           "abs-in-filter", "negative-index", "multi-selector", "wild"})
        nd = " in nondeterministic mode (the result is fully determined for this query and value)" if case.get("nondet") and not multiset_only else \
            " in nondeterministic mode" if case.get("nondet") else ""
        return {"bucket": f"nodelist:{kind}:{'+'.join(feats)}" + (":nondet" if nd else ""),
                "what": f"find({q!r}){nd} differs from the RFC 9535 nodelist ({kind})",
                "expected": ev.show_nodes(expected), "observed": ev.show_nodes(got), "kind": kind}
    return None


def minimise_qd(case, failure, examine, registry=None, same=None, budget=2500):
    """Shrink the query text (re-deriving the AST) and then the document."""
    bucket_kind = failure["bucket"].split(":")[:2]
    same = same or (lambda f: f is not None and f["bucket"].split(":")[:2] == bucket_kind)
    b = shrink.Budget(budget)
    cur = dict(case)

    def text_ok(t):
        res = abnf.classify(t)
        if res.verdict != abnf.VALID or typecheck.check(res.ast, registry) is not None:
            return False
        if EXCLUDE_R and arg_starts_with_not_or_paren(res.ast):
            return False
        c2 = dict(cur, q=t, ast=res.ast)
        return same(examine(c2))

    t = shrink.shrink_text(cur["q"], text_ok, b)
    if t != cur["q"]:
        cur = dict(cur, q=t, ast=abnf.classify(t).ast)

    def doc_ok(d):
        return same(examine(dict(cur, doc=d)))

    d = shrink.shrink_json(cur["doc"], doc_ok, shrink.Budget(budget))
    cur = dict(cur, doc=d)
    # a second pass over the text now that the document is small
    t = shrink.shrink_text(cur["q"], text_ok, shrink.Budget(budget // 2))
    if t != cur["q"]:
        cur = dict(cur, q=t, ast=abnf.classify(t).ast)
    f = examine(cur)
    if not same(f):
        return case, failure
    return cur, f


def sig_of(prop, case, failure):
    """Signature of a minimised differential failure: bucket kind + shape of the minimal query."""
    return f"{prop}:{failure['bucket']}:{shape(case.get('q', ''))}"


def shape(text: str) -> str:
    """Token shape of a (minimal) query text: letters -> a, digits -> 0, blanks -> _."""
    out = []
    prev = None
    for c in text:
        if c.isalpha() or ord(c) > 0x7F:
            k = "a"
        elif c.isdigit():
            k = "0"
        elif c in " \t\r\n":
            k = "_"
        else:
            k = c
        if k in "a0_" and k == prev:
            continue
        out.append(k)
        prev = k
    return "".join(out)[:60]
