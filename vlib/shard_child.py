"""Run one shard of a check in THIS interpreter (started with other flags / environment) and pickle the result.

    python [-O] -m vlib.shard_child <module> <spec.json> <out.pickle>
"""
import json
import pickle
import sys

from vlib import runner

if __name__ == "__main__":
    modname, specfile, out = sys.argv[1:4]
    spec = json.load(open(specfile))
    res = runner._run_shard((modname, spec), in_child=True)
    with open(out, "wb") as f:
        pickle.dump(res, f)
