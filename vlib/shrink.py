"""Minimisation without Hypothesis: ddmin over strings, greedy structural shrinking of JSON."""
from __future__ import annotations


class Budget:
    def __init__(self, n):
        self.n = n

    def spend(self):
        self.n -= 1
        return self.n >= 0


def shrink_text(text: str, pred, budget=None) -> str:
    """Smallest string found by deleting chunks (ddmin) and simplifying characters; pred(text) -> bool."""
    budget = budget or Budget(3000)
    n = 2
    while len(text) >= 1 and budget.n > 0:
        chunk = max(1, len(text) // n)
        reduced = False
        i = 0
        while i < len(text):
            cand = text[:i] + text[i + chunk:]
            if cand != text and budget.spend() and pred(cand):
                text = cand
                reduced = True
            else:
                i += chunk
        if reduced:
            n = max(n - 1, 2)
        elif chunk == 1:
            break
        else:
            n = min(len(text), n * 2)
    # exhaustive substring deletion for short strings (ddmin only tries aligned chunks)
    improved = True
    while improved and len(text) <= 64 and budget.n > 0:
        improved = False
        for size in range(len(text) - 1, 0, -1):
            for i in range(0, len(text) - size + 1):
                cand = text[:i] + text[i + size:]
                if budget.spend() and pred(cand):
                    text = cand
                    improved = True
                    break
            if improved or budget.n <= 0:
                break
    # character simplification: blanks -> single space removal handled by deletion; names -> 'a'
    for i, c in enumerate(text):
        if budget.n <= 0:
            break
        for repl in ("a", "0", "1"):
            if c != repl and (c.isalpha() and repl == "a" or c.isdigit() and repl in "01") and c > repl:
                cand = text[:i] + repl + text[i + 1:]
                if budget.spend() and pred(cand):
                    text = cand
                    break
    return text


def _children_variants(v):
    """Yield simpler variants of JSON value v (one step)."""
    if isinstance(v, list):
        if v:
            yield []
        for i in range(len(v)):
            yield v[:i] + v[i + 1:]
        for i, x in enumerate(v):
            for y in _children_variants(x):
                yield v[:i] + [y] + v[i + 1:]
    elif isinstance(v, dict):
        if v:
            yield {}
        for k in v:
            yield {kk: vv for kk, vv in v.items() if kk != k}
        for k, x in v.items():
            for y in _children_variants(x):
                d = dict(v)
                d[k] = y
                yield d
    elif isinstance(v, str):
        if v:
            yield ""
            yield v[:-1]
            yield v[1:]
    elif isinstance(v, bool) or v is None:
        return
    elif isinstance(v, int):
        if v != 0:
            yield 0
            yield v // 2 if v > 0 else -((-v) // 2)
    elif isinstance(v, float):
        if v != 0.0:
            yield 0.0
            if v == int(v) and abs(v) < 2**53:
                yield int(v)


def shrink_json(value, pred, budget=None):
    """Greedy: apply the first simpler variant that keeps pred true, until none does."""
    budget = budget or Budget(2000)
    changed = True
    while changed and budget.n > 0:
        changed = False
        for cand in _children_variants(value):
            if not budget.spend():
                break
            if pred(cand):
                value = cand
                changed = True
                break
    return value
