"""Reference self-test: the reference must reproduce RFC-derived vectors. Failure = exit 2."""
from __future__ import annotations

from vlib.runner import HarnessError


def run(quick=True):
    from vlib.ref import evaluate as ev

    # RFC 9535 2.3.4.3 slice examples on ["a","b","c","d","e","f","g"]
    n = 7
    vec = [((1, 3, None), [1, 2]), ((5, None, None), [5, 6]), ((1, 5, 2), [1, 3]),
           ((5, 1, -2), [5, 3]), ((None, None, -1), [6, 5, 4, 3, 2, 1, 0]),
           ((None, None, 0), []), ((-3, None, None), [4, 5, 6]), ((None, -5, -1), [6, 5, 4, 3])]
    for (a, b, c), exp in vec:
        got = ev.slice_indices(n, a, b, c)
        if got != exp:
            raise HarnessError(f"reference slice {a}:{b}:{c} gave {got}, RFC says {exp}")
    # comparison table spot checks (RFC 9535 2.3.5.3 table 11)
    N = ev.NOTHING
    checks = [((N, "==", N), True), ((N, "<=", N), True), ((N, "==", "g"), False), ((N, "!=", "g"), True),
              ((1, "<=", 2), True), ((1, ">", 2), False), ((13, "==", "13"), False), (("a", "<=", "b"), True),
              (("a", ">", "b"), False), (({"a": 1}, "==", {"a": 1}), True), (([1], "==", [True]), False),
              ((1, "==", 1.0), True), ((True, "<=", True), True), ((True, "<", 2), False), ((None, "<=", None), True),
              (([1], "<=", [1]), True), (([1], "<", [2]), False)]
    for (a, op, b), exp in checks:
        if ev.compare(a, op, b) != exp:
            raise HarnessError(f"reference compare {a!r} {op} {b!r} != {exp}")
    try:
        from vlib import selftest_full
    except ImportError:
        return
    selftest_full.run(quick=quick)
