"""Near-miss generation: one or two edits of a valid query, token sequences, arbitrary text."""
from __future__ import annotations

TOKENS = ["$", "@", ".", "..", "[", "]", "(", ")", ",", ":", "?", "*", "!", "==", "!=", "<", "<=", ">", ">=",
          "&&", "||", "=", "&", "|", "+", "-", "0", "1", "-0", "01", "-1", "1.", ".5", "e", "E", "1e1", "1e", "e1",
          "1.0", "-", "'a'", '"a"', "'", '"', "\\", "true", "false", "null", "TRUE", "True", "Null", "length(",
          "count(", "match(", "value(", "search(", "a", "_", "a1", " ", "\t", "\n", "\r", "  ", "\\u0041", "\\ud83d",
          "\\'", '\\"', "\\x", "==1", "&&@", "||@", ".a", "[0]", "['a']", "[*]", "..*", "()", "[]", "(@)", "!@",
          "\u00e9", "\U0001F600", "\x00", "\x1f", "\x7f", "::", ":1", "1:", ",0", "0,",
          # look-alikes: digits and letters that Python's int()/str methods accept but the grammar does not
          "\u0664", "\uff10", "\u0967", "\uff21", "\uff41", "\u00b2", "\u2028", "\u00a0", "\ufeff", "\u2212", "\uff0e",
          "\uff3b", "\u02bc", "\u2018", "\u201c"]

EDITS = ["delete", "insert", "replace", "transpose", "duplicate", "delete-range", "insert-blank", "case", "wrap", "wrap",
         "replace-digit", "escape-in-literal"]


def edit(text: str, r):
    """One edit; returns (new text, edit kind)."""
    kind = r.choice(EDITS)
    n = len(text)
    if kind == "delete" and n > 1:
        i = r.randrange(n)
        return text[:i] + text[i + 1:], kind
    if kind == "insert":
        i = r.randrange(n + 1)
        return text[:i] + r.choice(TOKENS) + text[i:], kind
    if kind == "replace" and n > 0:
        i = r.randrange(n)
        return text[:i] + r.choice(TOKENS) + text[i + 1:], kind
    if kind == "transpose" and n > 1:
        i = r.randrange(n - 1)
        return text[:i] + text[i + 1] + text[i] + text[i + 2:], kind
    if kind == "duplicate" and n > 0:
        i = r.randrange(n)
        return text[:i] + text[i] + text[i:], kind
    if kind == "delete-range" and n > 2:
        i = r.randrange(n)
        j = min(n, i + r.randrange(1, 5))
        return text[:i] + text[j:], kind
    if kind == "insert-blank":
        i = r.randrange(n + 1)
        return text[:i] + r.choice([" ", "\t", "\n", "\r"]) + text[i:], kind
    if kind == "wrap" and n > 2:
        # wrap a short span in parentheses / a negation / brackets (both ends inserted at once)
        i = r.randrange(1, n)
        j = min(n, i + r.randrange(1, 14))
        l, rr = r.choice([("(", ")"), ("(", ")"), ("!(", ")"), ("((", "))"), ("[", "]"), ("'", "'"), ("( ", " )")])
        return text[:i] + l + text[i:j] + rr + text[j:], kind
    if kind == "escape-in-literal" and n > 2:
        # a backslash put in front of a character inside a quoted literal (the other quote, a letter, a digit, a
        # blank ...): an escape is valid only for the few characters RFC 9535 lists, per quote style
        spans = []
        quote, start = None, 0
        j = 0
        while j < n:
            c = text[j]
            if quote is None and c in "'\"":
                quote, start = c, j
            elif quote is not None and c == "\\":
                j += 1
            elif quote is not None and c == quote:
                if j - start > 1:
                    spans.append((start + 1, j))
                quote = None
            j += 1
        if spans:
            a, b = r.choice(spans)
            at = r.randrange(a, b)
            if r.random() < 0.5:
                # make sure the interesting characters are there to be escaped
                ins = r.choice(["\\\"", "\\'", "\\x", "\\ ", "\\0", "\\U0041", "\\u12", "\\u-123", "\\u 41 ", "\\a", "\\N", "\\\n"])
                return text[:at] + ins + text[at:], kind
            return text[:at] + "\\" + text[at:], kind
        kind = "insert"
        i = r.randrange(n + 1)
        return text[:i] + r.choice(TOKENS) + text[i:], kind
    if kind == "replace-digit" and n > 0:
        ds = [i for i, c in enumerate(text) if c in "0123456789abcdefABCDEF"]
        if ds:
            i = r.choice(ds)
            return text[:i] + r.choice(["\u0664", "\uff10", "\u0967", "\uff21", "\uff41", "_", "+", " "]) + text[i + 1:], kind
    if kind == "case" and n > 0:
        i = r.randrange(n)
        c = text[i]
        return text[:i] + (c.upper() if c.islower() else c.lower()) + text[i + 1:], kind
    i = r.randrange(n + 1)
    return text[:i] + r.choice(TOKENS) + text[i:], "insert"


def mutant(text: str, r):
    """One or two edits of text; returns (mutant, [edit kinds])."""
    kinds = []
    out = text
    for _ in range(1 if r.random() < 0.7 else 2):
        out, k = edit(out, r)
        kinds.append(k)
    return out, kinds


def token_sequence(r, maxlen=8):
    return "$" * (r.random() < 0.8) + "".join(r.choice(TOKENS) for _ in range(r.randrange(1, maxlen)))


def garbage(r, maxlen=24):
    pools = ["$@.[]()?*!=<>&|,:'\"\\ \t\n", "abcxyz_019", "\u00e9\u4e2d\U0001F600\u2028\x00\x1f\x7f"]
    return "".join(r.choice(r.choice(pools)) for _ in range(r.randrange(0, maxlen)))


def position_class(text: str, i: int) -> str:
    """Coarse class of the character at position i (for bucketing)."""
    if i >= len(text):
        return "end"
    c = text[i]
    if c.isalpha():
        return "letter"
    if c.isdigit():
        return "digit"
    if c in " \t\r\n":
        return "blank"
    if ord(c) < 0x20 or ord(c) == 0x7F:
        return "control"
    if ord(c) > 0x7F:
        return "non-ascii"
    return c
