"""Generators for JSON values (the domain json.load produces from I-JSON).

All functions take `r`, a random.Random-compatible object obtained from Hypothesis
(`st.randoms(use_true_random=False)`), so every choice is owned by Hypothesis.
"""
from __future__ import annotations

LIM = 2**53 - 1

SIMPLE_NAMES = ["a", "b", "c", "d", "e"]
NASTY_NAMES = ["", "'", '"', "\\", "\\'", "a'b", 'a"b', "\b", "\f", "\n", "\r", "\t", "\x00", "\x01", "\x0b",
               "\x1f", "\x7f", "\x80", " ", "\ud7ff", "\ue000", "\uffff", "\U00010000", "\U0001F600",
               "\U0010FFFF", "0", "-1", "1", "a b", "a.b", "*", "$", "@", "\u00e9", "\u263a", "/", "\\u0041", "a\\",
               "\\\\", "''", "\u2028", "a-b", "_", "A1",
               # plain text followed by exactly one control character; names that change under Unicode normalisation
               "a\n", "line\n", "a\r", "ab\t", "a\n\n", "\nline", "e\u0301", "\u212b", "\uf900", "\u1100\u1161", "\ufb01"]
SCALARS = [None, True, False, 0, 1, -1, 2, 3, 10, 0.0, -0.0, 1.0, 1.5, -2.5, 1e100, "", "a", "b", "ab", "abc", "A",
           "\u00e9", "\U0001F600", "\uffff", LIM, -LIM, 0.1, 100, 100.0]
FALSY = [None, False, 0, 0.0, -0.0, "", [], {}]


def scalar(r, strings=None):
    k = r.randrange(10)
    if k == 0:
        return None
    if k == 1:
        return r.choice([True, False])
    if k in (2, 3):
        return r.choice([0, 1, 2, 3, -1, 5, 10, 42, r.randrange(-20, 20)])
    if k == 4:
        return r.choice([0.0, -0.0, 1.0, 2.0, 1.5, -2.5, 0.1, 1e100, 3.0, r.randrange(-40, 40) / 4])
    if k == 5:
        return r.choice([LIM, -LIM, 2**31, -2**31, 2**53, 1e16, 123456789])
    if k in (6, 7, 8):
        return r.choice(strings or ["", "a", "b", "ab", "abc", "A", "\u00e9", "\U0001F600", "b\n", "1", "true",
                                    "e\u0301", "\u1100\u1161", "a\u0308b"])
    return r.choice(SCALARS)


def fresh(v):
    """A fresh (deep) copy so that containers are distinct objects."""
    if isinstance(v, list):
        return [fresh(x) for x in v]
    if isinstance(v, dict):
        return {k: fresh(x) for k, x in v.items()}
    return v


def value(r, depth=3, names=None, budget=None, strings=None, falsy_bias=0.0):
    """A JSON value with at most about `budget[0]` nodes and nesting at most `depth`."""
    names = names or SIMPLE_NAMES
    if budget is None:
        budget = [25]
    budget[0] -= 1
    if depth <= 0 or budget[0] <= 0 or r.random() < 0.3:
        if falsy_bias and r.random() < falsy_bias:
            return fresh(r.choice(FALSY))
        return scalar(r, strings)
    if r.random() < 0.5:
        n = r.randrange(0, 5)
        return [value(r, depth - 1, names, budget, strings, falsy_bias) for _ in range(n)]
    n = r.randrange(0, 5)
    out = {}
    pool = list(names)
    for _ in range(n):
        if not pool:
            break
        k = pool.pop(r.randrange(len(pool)))
        out[k] = value(r, depth - 1, names, budget, strings, falsy_bias)
    return out


def table(r, names=None, strings=None, falsy_bias=0.0):
    """An array (or object) of 2-6 similar records: what filters are typically applied to."""
    names = names or SIMPLE_NAMES
    cols = r.sample(list(names), min(len(names), r.randrange(1, 4)))
    domain = [scalar(r, strings) for _ in range(3)] + [fresh(r.choice(FALSY)), [1, 2], {"a": 1}]
    rows = []
    for _ in range(r.randrange(2, 7)):
        k = r.random()
        if k < 0.15:
            rows.append(fresh(r.choice(domain)))      # a scalar / odd row among the records
            continue
        row = {}
        for c in cols:
            if r.random() < 0.8:
                row[c] = fresh(r.choice(domain))
        rows.append(row)
    if r.random() < 0.25:
        keys = r.sample(list(names), min(len(names), len(rows)))
        return dict(zip(keys, rows))
    return rows


LOOKALIKES = [0, False, 1, True, 1.0, 0.0, -0.0, "1", "0", "", None, "true", 2, "a", "b", [], {}, [1], [True], {"a": 1}, {"a": True}, 10, "10"]
SIZES = [63, 64, 65, 100, 127, 128, 129, 200, 255, 256, 257, 300]
BIG_SIZES = [1000, 1023, 1024, 1025, 4095, 4096, 4097, 8191, 8192, 8193, 10000, 16384, 16385, 65535, 65536, 65537, 70000]


def wide(r, names=None, size=None):
    """A wide array or object (around typical size thresholds) of look-alike values and small records."""
    n = size or r.choice(SIZES)
    kind = r.random()
    if kind < 0.5:
        items = [fresh(r.choice(LOOKALIKES)) for _ in range(n)]
    elif kind < 0.8:
        cols = (names or SIMPLE_NAMES)[:2]
        items = [{c: fresh(r.choice(LOOKALIKES)) for c in cols if r.random() < 0.8} for _ in range(n)]
    else:
        items = [r.choice([i, i % 7, str(i % 5), i % 2 == 0, float(i % 3), None]) for i in range(n)]
    if r.random() < 0.2:
        return {"k%d" % i: v for i, v in enumerate(items)}
    return items


class ListSub(list):
    """A list subclass: json-like data does not have to be built from the exact built-in types."""


class DictSub(dict):
    """A dict subclass (like collections.OrderedDict)."""


class StrSub(str):
    """A str subclass (like the members of a `class Colour(str, Enum)`): still a JSON string."""


def exotic(v, seed):
    """Rebuild v with dict/list *subclasses* (OrderedDict, plain subclasses) at pseudo-randomly chosen nested
    containers (deterministic in seed).

    The root keeps its built-in type; values, member order and sharing-free structure are unchanged.
    """
    import collections  # noqa: PLC0415

    state = [seed & 0xFFFFFFFF]

    def nxt():
        state[0] = (state[0] * 1103515245 + 12345) & 0x7FFFFFFF
        return state[0] >> 8

    def rec(x, top):
        if isinstance(x, dict):
            items = [(k, rec(c, False)) for k, c in x.items()]
            # (collections.defaultdict is deliberately not used: looking up a missing name *creates* it, which is
            # that type's documented behaviour and not a JSON value's)
            k = nxt() % 3 if not top else 2
            if k == 0:
                return collections.OrderedDict(items)
            if k == 1:
                return DictSub(items)
            return dict(items)
        if isinstance(x, list):
            items = [rec(c, False) for c in x]
            if not top and nxt() % 2 == 0:
                return ListSub(items)
            return items
        if type(x) is str and not top and nxt() % 3 == 0:
            return StrSub(x)
        return x

    return rec(v, True)


def alias(v, seed):
    """Return a copy of v in which some sub-containers are *shared*: the very same dict/list object is referenced from
    two or more places (a DAG, never a cycle) - what programmatically built data often looks like.  The result is
    JSON-equal to v with duplicated content."""
    state = [seed & 0xFFFFFFFF]

    def nxt():
        state[0] = (state[0] * 1103515245 + 12345) & 0x7FFFFFFF
        return state[0] >> 8

    v = fresh(v)
    pool = []
    stack = [v]
    while stack:
        x = stack.pop()
        kids = list(x.values()) if isinstance(x, dict) else list(x) if isinstance(x, list) else []
        for c in kids:
            if isinstance(c, (dict, list)):
                pool.append(c)
                stack.append(c)
    if not pool:
        shared = [1, {"a": [2]}]
        if isinstance(v, list):
            v.extend([shared, shared])
        elif isinstance(v, dict):
            v["a"] = shared
            v["b"] = shared
        return v
    # re-reference existing sub-containers at other places (only below nodes that are not inside the shared object)
    for _ in range(1 + nxt() % 3):
        shared = pool[nxt() % len(pool)]
        inside = set()
        st = [shared]
        while st:
            y = st.pop()
            inside.add(id(y))
            st.extend(c for c in (y.values() if isinstance(y, dict) else y if isinstance(y, list) else []) if isinstance(c, (dict, list)))
        hosts = [h for h in [v] + pool if id(h) not in inside]
        host = hosts[nxt() % len(hosts)]
        if isinstance(host, list):
            host.insert(nxt() % (len(host) + 1), shared)
        else:
            host["s%d" % (nxt() % 3)] = shared
    return v


def container(r, depth=3, names=None, budget=None, strings=None, falsy_bias=0.0, wide_p=0.04):
    """A non-scalar value (so that queries have something to select)."""
    names = names or SIMPLE_NAMES
    if budget is None:
        budget = [25]
    k = r.random()
    if k > 1.0 - wide_p:
        w = wide(r, names)
        if r.random() < 0.5:
            return w
        return {r.choice(list(names)): w, r.choice(list(names)): scalar(r, strings)}
    if k < 0.3:
        return table(r, names, strings, falsy_bias)
    if k < 0.45:
        key = r.choice(list(names))
        out = {key: table(r, names, strings, falsy_bias)}
        if r.random() < 0.6:
            out[r.choice(list(names))] = value(r, depth - 1, names, budget, strings, falsy_bias)
        return out
    if r.random() < 0.5:
        n = r.randrange(1, 6)
        return [value(r, depth - 1, names, budget, strings, falsy_bias) for _ in range(n)]
    pool = list(names)
    out = {}
    for _ in range(r.randrange(1, 5)):
        if not pool:
            break
        k = pool.pop(r.randrange(len(pool)))
        out[k] = value(r, depth - 1, names, budget, strings, falsy_bias)
    return out


def count_nodes(v):
    n = 0
    stack = [v]
    while stack:
        x = stack.pop()
        n += 1
        if isinstance(x, dict):
            stack.extend(x.values())
        elif isinstance(x, list):
            stack.extend(x)
    return n


def strict_equal(a, b):
    """Type-strict deep equality (1 != 1.0 != True), member order included, -0.0 != 0.0. Iterative."""
    import math  # noqa: PLC0415

    stack = [(a, b)]
    while stack:
        x, y = stack.pop()
        if type(x) is not type(y):
            return False
        if isinstance(x, list):
            if len(x) != len(y):
                return False
            stack.extend(zip(x, y))
        elif isinstance(x, dict):
            if list(x.keys()) != list(y.keys()):
                return False
            stack.extend((x[k], y[k]) for k in x)
        elif isinstance(x, float):
            if x != y or math.copysign(1, x) != math.copysign(1, y):
                return False
        elif x != y:
            return False
    return True


def depth(v):
    """Container nesting depth of v (a scalar: 0, [] : 1, [[1]] : 2); iterative."""
    best, stack = 0, [(v, 1)]
    while stack:
        x, d = stack.pop()
        if isinstance(x, (dict, list)):
            best = max(best, d)
            stack.extend((c, d + 1) for c in (x.values() if isinstance(x, dict) else x))
    return best
