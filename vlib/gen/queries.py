"""Query AST generator (type-directed, canonical parser shape) and lexical renderer.

`r` is a random.Random-compatible object owned by Hypothesis.  The renderer draws every
lexical alternative the grammar offers; render(ast, None) is the canonical rendering.
Number literals carry their spelling: ["lit", value, text].
"""
from __future__ import annotations

from vlib.ref.evaluate import BUILTINS, LOGICAL, NODES, VALUE
from vlib.ref.abnf import _is_name_char, _is_name_first

LIM = 2**53 - 1


class _MissingType:
    pass


_MISSING = _MissingType()
OPS = ["==", "!=", "<", "<=", ">", ">="]
BLANKS = [" ", " ", " ", "\t", "\n", "\r", "  ", " \n", "\r\n", "\t "]


def strip_hints(ast):
    """Drop the spelling hint of number literals: ["lit", v, text] -> ["lit", v]."""
    if isinstance(ast, list):
        if len(ast) == 3 and ast[0] == "lit":
            return ["lit", ast[1]]
        return [strip_hints(x) for x in ast]
    return ast


def number_value(text):
    """The value the reference assigns to a number spelling."""
    t = text[1:] if text.startswith("-") else text
    if t.isdigit():
        return int(text)
    return float(text)


# ------------------------------------------------------------------ generator
class QGen:
    def __init__(self, r, names=None, registry=None, filters=True, max_filter_depth=2,
                 strings=None, functions=True, big_ints=False, nonascii_names=True,
                 exclude=(), numbers=None):
        self.r = r
        self.names = names or ["a", "b", "c", "d", "e"]
        self.registry = BUILTINS if registry is None else registry
        self.filters = filters
        self.max_filter_depth = max_filter_depth
        self.strings = strings or ["", "a", "b", "ab", "abc", "A", "\u00e9", "\U0001F600", "1", "true", "b\n"]
        self.functions = functions
        self.big_ints = big_ints
        self.exclude = set(exclude)
        self.numbers = numbers or []
        self.doc = None      # document for '$'-rooted guidance
        self.ctx = None      # sample values of '@' at the current filter level
        self.reached = _MISSING  # scalar reached by the last guided singular query
        self.evalr = None    # optional reference evaluator used only to guide literals
        self.cheap_filters = False
        self.by_ret = {VALUE: [], LOGICAL: [], NODES: []}
        for n, f in self.registry.items():
            self.by_ret[f["ret"]].append(n)

    # -- structure ------------------------------------------------------------
    def query(self, root="$", min_segs=0, max_segs=4, fdepth=0):
        r = self.r
        n = r.randrange(min_segs, max_segs + 1)
        return ["q", root, [self.segment(fdepth) for _ in range(n)]]

    def guided_query(self, doc, min_segs=1, max_segs=4, hit_p=0.8, fdepth=0, root="$"):
        """A query whose selectors mostly hit: the cursor walks down the document."""
        r = self.r
        if root == "$" and fdepth == 0:
            self.doc = doc
        cursor = doc
        segs = []
        for _ in range(r.randrange(min_segs, max_segs + 1)):
            kind = "desc" if r.random() < 0.2 else "child"
            if kind == "desc":
                pool = [x for x in _containers(cursor)]
                if pool:
                    cursor = r.choice(pool)
            k = 1 if r.random() < 0.65 else r.randrange(2, 4)
            sels = []
            for _ in range(k):
                if r.random() < hit_p:
                    sels.append(self.hitting_selector(cursor, fdepth))
                else:
                    sels.append(self.selector(fdepth))
            segs.append([kind, sels])
            nxt = _selected_children(cursor, sels)
            if nxt:
                cursor = r.choice(nxt)
        if r.random() < 0.12:
            # a selector that does not fit the kind of value reached: index/slice into a string or an object,
            # name on an array or a string (RFC 9535: selects nothing)
            if isinstance(cursor, str) and cursor:
                segs.append(["child", [r.choice([["index", r.randrange(-len(cursor), len(cursor))], ["slice", None, None, None],
                                                 ["wild"], ["name", "0"]])]])
            elif isinstance(cursor, dict) and cursor:
                segs.append(["child", [r.choice([["index", 0], ["index", -1], ["slice", 0, None, None]])]])
            elif isinstance(cursor, list) and cursor:
                segs.append(["child", [r.choice([["name", "0"], ["name", "length"], ["name", str(len(cursor) - 1)]])]])
        return ["q", root, segs]

    def filter_for(self, v, fdepth):
        """A filter selector whose expression is guided by the children of v."""
        kids = list(v.values()) if isinstance(v, dict) else list(v) if isinstance(v, list) else []
        saved = self.ctx
        self.ctx = kids or None
        try:
            if self.r.random() < 0.6:
                return ["filter", self.basic(fdepth + 1, 1)]
            return ["filter", self.logical(fdepth + 1, 2)]
        finally:
            self.ctx = saved

    def hitting_selector(self, v, fdepth=0):
        r = self.r
        can_filter = self.filters and fdepth < self.max_filter_depth
        if isinstance(v, dict) and v:
            k = r.randrange(10)
            if k < 5:
                return ["name", r.choice(list(v.keys()))]
            if k < 7 or not can_filter:
                return ["wild"]
            return self.filter_for(v, fdepth)
        if isinstance(v, list) and v:
            n = len(v)
            k = r.randrange(10)
            if k < 3:
                return ["index", r.randrange(-n, n)]
            if k < 5:
                a = r.choice([None, r.randrange(-n - 1, n + 1)])
                b = r.choice([None, r.randrange(-n - 1, n + 2)])
                c = r.choice([None, 1, 1, 2, -1, -1, -2])
                return ["slice", a, b, c]
            if k < 7 or not can_filter:
                return ["wild"]
            return self.filter_for(v, fdepth)
        return self.selector(fdepth)

    def segment(self, fdepth=0):
        r = self.r
        kind = "desc" if r.random() < 0.2 else "child"
        k = 1 if r.random() < 0.6 else r.randrange(1, 5)
        return [kind, [self.selector(fdepth) for _ in range(k)]]

    def int_(self, small=True):
        r = self.r
        if self.big_ints and r.random() < 0.1:
            return r.choice([LIM, -LIM, LIM - 1, 2**31, -2**31, r.randrange(-LIM, LIM + 1)])
        return r.choice([0, 0, 1, 1, 2, 3, -1, -1, -2, -3, 4, 5, -5, 7, r.randrange(-9, 10)])

    def selector(self, fdepth=0):
        r = self.r
        k = r.randrange(12 if (self.filters and fdepth < self.max_filter_depth) else 9)
        if k < 3:
            return ["name", r.choice(self.names)]
        if k < 5:
            return ["index", self.int_()]
        if k < 7:
            a = None if r.random() < 0.35 else self.int_()
            b = None if r.random() < 0.35 else self.int_()
            c = None if r.random() < 0.4 else r.choice([1, 1, 2, -1, -1, -2, 0, 3, self.int_()])
            return ["slice", a, b, c]
        if k < 9:
            return ["wild"]
        return ["filter", self.logical(fdepth + 1, 2)]

    def singular(self, root=None, max_segs=3):
        r = self.r
        root = root or ("@" if r.random() < 0.8 else "$")
        segs = []
        cursor = _MISSING
        if root == "@" and self.ctx:
            cursor = r.choice(self.ctx)
        elif root == "$" and self.doc is not None:
            cursor = self.doc
        n = r.choice([0, 1, 1, 1, 2, 2, 3][: 4 + max_segs])
        for _ in range(n):
            if isinstance(cursor, dict) and cursor and r.random() < 0.85:
                k = r.choice(list(cursor.keys()))
                segs.append(["child", [["name", k]]])
                cursor = cursor[k]
            elif isinstance(cursor, list) and cursor and r.random() < 0.85:
                i = r.randrange(-len(cursor), len(cursor))
                segs.append(["child", [["index", i]]])
                cursor = cursor[i]
            else:
                if cursor is not _MISSING and r.random() < 0.8:
                    break  # stop at the value reached instead of walking off the document
                cursor = _MISSING
                if r.random() < 0.7:
                    segs.append(["child", [["name", r.choice(self.names)]]])
                else:
                    segs.append(["child", [["index", self.int_()]]])
        self.reached = cursor
        return ["q", root, segs]

    def filter_query(self, fdepth):
        r = self.r
        if r.random() < 0.5 or self.cheap_filters:
            # (for very wide documents only singular queries are embedded in filters: every embedded descendant or
            # wildcard query is evaluated once per child and the cost of a case would grow quadratically or worse)
            return self.singular()
        root = "@" if r.random() < 0.75 else "$"
        base = None
        if root == "@" and self.ctx:
            base = r.choice(self.ctx)
        elif root == "$":
            base = self.doc
        if base is not None and isinstance(base, (dict, list)) and r.random() < 0.8:
            saved = self.ctx
            q = self.guided_query(base, 1, 2, hit_p=0.8, fdepth=fdepth, root=root)
            self.ctx = saved
            return q
        return self.query(root, 0, 2, fdepth)

    def string(self):
        return self.r.choice(self.strings)

    def number_text(self):
        r = self.r
        if self.numbers and r.random() < 0.5:
            v = r.choice(self.numbers)
            t = repr(v)
            if "inf" not in t and "nan" not in t:
                if r.random() < 0.3 and isinstance(v, int) and abs(v) < 10**6:
                    t = r.choice([t + ".0", t + "e0", t + "E+0", t + ".00e-0"])
                return t
        k = r.randrange(10)
        if k < 5:
            return str(r.choice([0, 1, 2, 3, 10, -1, -2, 5, 42, 100, r.randrange(-50, 50)]))
        neg = "-" if r.random() < 0.3 else ""
        ip = r.choice(["0", "0", "1", "2", "3", "10", "12", "100", str(r.randrange(0, 1000))])
        frac = ""
        if r.random() < 0.6:
            frac = "." + r.choice(["0", "5", "50", "25", "00", "125", "1", "10", str(r.randrange(0, 100))])
        exp = ""
        if r.random() < 0.5 or not frac:
            exp = r.choice(["e", "E"]) + r.choice(["", "+", "-"]) + r.choice(["0", "1", "2", "00", "01", "02", "3", "10"])
        if ip == "0" and frac in ("", ".0", ".00") and r.random() < 0.35:
            # zero is zero whatever the exponent: legal spellings whose exponent no float could hold
            exp = r.choice(["e", "E"]) + r.choice(["", "+", "-"]) + r.choice(["308", "309", "400", "999", "1000", "4999", "0400"])
        elif r.random() < 0.05:
            # tiny magnitudes: the exponent underflows to zero (negative exponents only; overflowing literals are disputed)
            exp = r.choice(["e", "E"]) + "-" + r.choice(["324", "400", "999"])
            frac = frac or ".5"
        return neg + ip + frac + exp

    def literal(self, near=_MISSING):
        r = self.r
        if near is not _MISSING and not isinstance(near, (dict, list)) and r.random() < 0.85:
            if isinstance(near, bool) or near is None or isinstance(near, str):
                return ["lit", near]
            t = repr(near)
            if "inf" not in t and "nan" not in t:
                return ["lit", number_value(t), t]
        k = r.randrange(10)
        if k < 4:
            t = self.number_text()
            return ["lit", number_value(t), t]
        if k < 7:
            return ["lit", self.string()]
        return ["lit", r.choice([True, False, None])]

    def value_expr(self, fdepth, budget):
        """An expression of declared type ValueType: literal / singular query / Value call."""
        r = self.r
        k = r.randrange(10)
        if k < 4 or budget <= 0:
            return self.literal() if r.random() < 0.6 else self.singular()
        if k < 8 or not (self.functions and self.by_ret[VALUE]):
            return self.singular()
        return self.call(VALUE, fdepth, budget - 1)

    def call(self, ret, fdepth, budget):
        r = self.r
        name = r.choice(self.by_ret[ret])
        fn = self.registry[name]
        args = [self.argument(p, fdepth, budget) for p in fn["params"]]
        return ["call", name, args]

    def argument(self, ptype, fdepth, budget):
        r = self.r
        if ptype == VALUE:
            return self.value_expr(fdepth, budget)
        if ptype == NODES:
            if self.functions and self.by_ret[NODES] and budget > 0 and r.random() < 0.3:
                return self.call(NODES, fdepth, budget - 1)
            return self.filter_query(fdepth)
        # LogicalType: logical-expr, query, Logical/Nodes call
        k = r.randrange(4)
        if k == 0:
            return self.filter_query(fdepth)
        cands = self.by_ret[LOGICAL] + self.by_ret[NODES]
        if k == 1 and self.functions and cands and budget > 0:
            name = r.choice(cands)
            return self.call(self.registry[name]["ret"], fdepth, budget - 1)
        e = self.logical(fdepth, budget - 1)
        if e[0] == "test":
            return e[1]
        return e

    def basic(self, fdepth, budget):
        """paren-expr / comparison-expr / test-expr (with optional '!')."""
        r = self.r
        k = r.randrange(12)
        if budget <= 0:
            k = r.choice([0, 1, 2, 5, 6])
        if k < 3:
            return ["test", self.filter_query(fdepth)]
        if k == 3:
            return ["not", ["test", self.filter_query(fdepth)]]
        if k == 4:
            inner = ["paren", self.logical(fdepth, budget - 1)]
            return ["not", inner] if r.random() < 0.5 else inner
        if k < 9:
            self.reached = _MISSING
            left = self.singular() if r.random() < 0.6 else self.value_expr(fdepth, budget - 1)
            reached = self.reached
            if self.evalr is not None and self.ctx and left[0] != "lit":
                # ask the reference what this comparand is for one of the children under test, so
                # that the other side can be a literal that makes the comparison decisive
                try:
                    v = self.evalr.comparable(strip_hints(left), self.doc, r.choice(self.ctx))
                    reached = v if not isinstance(v, (dict, list)) and type(v).__name__ != "_Nothing" else reached
                except Exception:  # noqa: BLE001 - guidance only
                    pass
            op = r.choice(OPS)
            if reached is not _MISSING and not isinstance(reached, (dict, list)) and r.random() < 0.8:
                right = self.literal(near=reached)
                op = r.choice(["==", "==", "==", "!=", "<=", ">=", "<", ">"])
            else:
                right = self.value_expr(fdepth, budget - 1)
            if r.random() < 0.3:
                left, right = right, left
            return ["cmp", op, left, right]
        if k == 9:
            return ["paren", self.logical(fdepth, budget - 1)]
        cands = self.by_ret[LOGICAL] + self.by_ret[NODES]
        if self.functions and cands:
            name = r.choice(cands)
            t = ["test", self.call(self.registry[name]["ret"], fdepth, budget - 1)]
            return ["not", t] if r.random() < 0.25 else t
        return ["test", self.filter_query(fdepth)]

    def and_(self, fdepth, budget):
        r = self.r
        if budget <= 0 or r.random() < 0.65:
            return self.basic(fdepth, budget)
        n = r.randrange(2, 4)
        return ["and", [self.basic(fdepth, budget - 1) for _ in range(n)]]

    def logical(self, fdepth, budget):
        r = self.r
        if budget <= 0 or r.random() < 0.7:
            return self.and_(fdepth, budget)
        n = r.randrange(2, 4)
        return ["or", [self.and_(fdepth, budget - 1) for _ in range(n)]]


class _Missing:
    def __repr__(self):
        return "<missing>"


def _containers(v):
    out = []
    stack = [v]
    while stack:
        x = stack.pop()
        if isinstance(x, (dict, list)):
            out.append(x)
            stack.extend(x.values() if isinstance(x, dict) else x)
    return out


def _selected_children(v, sels):
    out = []
    for s in sels:
        t = s[0]
        if t == "name" and isinstance(v, dict) and s[1] in v:
            out.append(v[s[1]])
        elif t == "index" and isinstance(v, list) and -len(v) <= s[1] < len(v):
            out.append(v[s[1]])
        elif t in ("wild", "filter", "slice"):
            if isinstance(v, dict):
                out.extend(v.values())
            elif isinstance(v, list):
                out.extend(v)
    return out


def pools(doc):
    """Member names, strings and numbers occurring in a document."""
    names, strings, numbers = [], [], []
    stack = [doc]
    while stack:
        x = stack.pop()
        if isinstance(x, dict):
            names.extend(x.keys())
            stack.extend(x.values())
        elif isinstance(x, list):
            stack.extend(x)
        elif isinstance(x, str):
            strings.append(x)
        elif isinstance(x, (int, float)) and not isinstance(x, bool):
            numbers.append(x)
    return names, strings, numbers


# ------------------------------------------------------------------ renderer
def shorthandable(name: str) -> bool:
    return bool(name) and _is_name_first(name[0]) and all(_is_name_char(c) for c in name[1:])


_NAMED = {"\b": "b", "\f": "f", "\n": "n", "\r": "r", "\t": "t", "/": "/", "\\": "\\"}


def spell_char(c, quote, r):
    """One spelling of character c inside a literal delimited by quote."""
    o = ord(c)
    options = []
    if c == quote:
        options.append("\\" + quote)
    elif c == "\\":
        options.append("\\\\")
    elif o >= 0x20:
        options.append(c)
    if c in _NAMED:
        options.append("\\" + _NAMED[c])
    if o < 0x10000 and not 0xD800 <= o <= 0xDFFF:
        options.append("\\u%04x" % o)
        options.append("\\u%04X" % o)
    elif o >= 0x10000:
        hi = 0xD800 + ((o - 0x10000) >> 10)
        lo = 0xDC00 + ((o - 0x10000) & 0x3FF)
        options.append("\\u%04x\\u%04x" % (hi, lo))
        options.append("\\u%04X\\u%04X" % (hi, lo))
        options.append("\\u%04X\\u%04x" % (hi, lo))
    if r is None:
        return options[0]
    if r.random() < 0.7:
        return options[0]
    return r.choice(options)


def spell_string(s, r, quote=None):
    if quote is None:
        quote = "'" if r is None or r.random() < 0.6 else '"'
    return quote + "".join(spell_char(c, quote, r) for c in s) + quote


class Renderer:
    """Renders an AST; every optional form is drawn from r (None = canonical)."""

    def __init__(self, r=None, blank_p=0.15, exclude=()):
        self.r = r
        self.blank_p = blank_p
        self.used = set()   # which optional forms were used (for the evidence histogram)
        self.exclude = set(exclude)

    def S(self, kind=""):
        r = self.r
        if r is None or r.random() >= self.blank_p:
            return ""
        self.used.add("blank")
        if kind:
            self.used.add("blank:" + kind)
        return r.choice(BLANKS)

    def string(self, s, quote=None):
        out = spell_string(s, self.r, quote)
        if out[0] == '"':
            self.used.add("double-quote")
        if "\\" in out:
            self.used.add("escape")
        if any(ord(c) > 0x7F for c in out):
            self.used.add("non-ascii")
        return out

    def query(self, q, strict_singular=False):
        return q[1] + "".join(self.S("segment") + self.segment(s, strict_singular) for s in q[2])

    def segment(self, seg, strict=False):
        r = self.r
        kind, sels = seg[0], seg[1]
        prefix = ".." if kind == "desc" else ""
        if len(sels) == 1:
            s = sels[0]
            if s[0] == "name" and shorthandable(s[1]) and r is not None and r.random() < 0.6:
                self.used.add("shorthand")
                if any(ord(c) > 0x7F for c in s[1]):
                    self.used.add("non-ascii-shorthand")
                return (".." if kind == "desc" else ".") + s[1]
            if s[0] == "wild" and r is not None and r.random() < 0.6:
                self.used.add("shorthand")
                return (".." if kind == "desc" else ".") + "*"
        if strict and len(sels) == 1 and sels[0][0] in ("name", "index"):
            return prefix + "[" + self.selector(sels[0]) + "]"
        return (prefix + "[" + self.S("bracket-open")
                + (self.S("before-comma") + "," + self.S("after-comma")).join(self.selector(s) for s in sels)
                + self.S("bracket-close") + "]")

    def selector(self, s):
        t = s[0]
        if t == "name":
            return self.string(s[1])
        if t == "index":
            return str(s[1])
        if t == "wild":
            return "*"
        if t == "slice":
            a, b, c = s[1:4]
            out = ""
            if a is not None:
                out += str(a) + self.S("slice")
            out += ":" + self.S("slice")
            if b is not None:
                out += str(b) + self.S("slice")
            if c is not None:
                out += ":" + self.S("slice") + str(c)
            elif self.r is not None and self.r.random() < 0.3:
                out += ":"
            return out
        if t == "filter":
            return "?" + self.S("filter") + self.expr(s[1])
        raise ValueError(t)

    def expr(self, e):
        t = e[0]
        if t == "or":
            return (self.S("op") + "||" + self.S("op")).join(self.expr(x) for x in e[1])
        if t == "and":
            return (self.S("op") + "&&" + self.S("op")).join(self.expr(x) for x in e[1])
        if t == "not":
            return "!" + self.S("not") + self.expr(e[1])
        if t == "paren":
            self.used.add("paren")
            return "(" + self.S("paren") + self.expr(e[1]) + self.S("paren") + ")"
        if t == "cmp":
            return self.comparable(e[2]) + self.S("op") + e[1] + self.S("op") + self.comparable(e[3])
        if t == "test":
            return self.operand(e[1])
        raise ValueError(t)

    def literal(self, l):
        v = l[1]
        if v is None:
            return "null"
        if v is True:
            return "true"
        if v is False:
            return "false"
        if isinstance(v, str):
            return self.string(v)
        if len(l) > 2:
            text = l[2]
            if any(c in text for c in ".eE") or text.startswith("-0"):
                self.used.add("number-form")
            return text
        if isinstance(v, int):
            return str(v)
        return repr(v)

    def comparable(self, c):
        if c[0] == "lit":
            return self.literal(c)
        if c[0] == "q":
            return self.query(c, strict_singular=True)
        return self.operand(c)

    def operand(self, x):
        t = x[0]
        if t == "lit":
            return self.literal(x)
        if t == "q":
            return self.query(x)
        if t == "call":
            return (x[1] + "(" + self.S("call")
                    + (self.S("arg") + "," + self.S("arg")).join(self.operand(a) for a in x[2])
                    + self.S("call") + ")")
        return self.expr(x)


def render(ast, r=None, blank_p=0.15):
    rd = Renderer(r, blank_p)
    return rd.query(ast), rd.used


def canonical(ast):
    return Renderer(None).query(ast)


# ------------------------------------------------------------------ AST utilities
def walk(ast):
    """Yield every sub-list of an AST (pre-order)."""
    stack = [ast]
    while stack:
        x = stack.pop()
        if isinstance(x, list):
            yield x
            stack.extend(reversed([y for y in x if isinstance(y, list)]))


def features(ast):
    """Cheap structural features for histograms / non-triviality rules."""
    f = set()
    for x in walk(ast):
        if not x or not isinstance(x[0], str):
            continue
        t = x[0]
        if t == "desc":
            f.add("descendant")
        elif t in ("child",) and len(x[1]) > 1:
            f.add("multi-selector")
        elif t == "index" and x[1] < 0:
            f.add("negative-index")
        elif t == "slice":
            f.add("slice")
            if x[3] is not None and x[3] < 0:
                f.add("reverse-slice")
        elif t == "filter":
            f.add("filter")
        elif t in ("or", "and", "not", "paren", "cmp", "call", "wild"):
            f.add(t)
        elif t == "q" and x[1] == "$" and x is not ast:
            f.add("abs-in-filter")
    return f


def filter_depth(ast):
    def d(x):
        if not isinstance(x, list):
            return 0
        m = max([d(y) for y in x] or [0])
        return m + (1 if x and x[0] == "filter" else 0)
    return d(ast)
