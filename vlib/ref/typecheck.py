"""Reference validity judgement: RFC 9535 section 2.4.3 well-typedness + integer range.

registry: {name: {"params": [type...], "ret": type}}  with types "Value"/"Logical"/"Nodes".
check(ast, registry, lo, hi) -> None when valid, else (category, detail, depth) where
depth says how deep inside the filter expression the fault sits.
"""
from __future__ import annotations

from .evaluate import BUILTINS, LOGICAL, NODES, VALUE

LIM = 2**53 - 1
EXPR_TAGS = ("or", "and", "not", "paren", "cmp", "test")


def is_singular(q) -> bool:
    for seg in q[2]:
        if seg[0] != "child" or len(seg[1]) != 1 or seg[1][0][0] not in ("name", "index"):
            return False
    return True


class Fault(Exception):
    def __init__(self, category, detail):
        super().__init__(category, detail)
        self.category, self.detail = category, detail


class Checker:
    def __init__(self, registry=None, lo=-LIM, hi=LIM):
        self.reg = BUILTINS if registry is None else registry
        self.lo, self.hi = lo, hi

    def query(self, q):
        for seg in q[2]:
            for sel in seg[1]:
                t = sel[0]
                if t == "index":
                    self.rng(sel[1])
                elif t == "slice":
                    for x in sel[1:4]:
                        if x is not None:
                            self.rng(x)
                elif t == "filter":
                    self.logical(sel[1])

    def rng(self, i):
        if i < self.lo or i > self.hi:
            raise Fault("int-range", i)

    def logical(self, e):
        t = e[0]
        if t in ("or", "and"):
            for x in e[1]:
                self.logical(x)
        elif t in ("not", "paren"):
            self.logical(e[1])
        elif t == "cmp":
            self.comparable(e[2])
            self.comparable(e[3])
        elif t == "test":
            x = e[1]
            if x[0] == "q":
                self.query(x)
            else:
                ret = self.call(x)
                if ret == VALUE:
                    raise Fault("value-call-as-test", x[1])
        else:
            raise ValueError(t)

    def comparable(self, c):
        t = c[0]
        if t == "lit":
            return
        if t == "q":
            self.query(c)
            if not is_singular(c):
                raise Fault("non-singular-compared", None)
            return
        if t == "call":
            ret = self.call(c)
            if ret != VALUE:
                raise Fault("non-value-call-compared", c[1])
            return
        raise ValueError(t)

    def call(self, c):
        name, args = c[1], c[2]
        fn = self.reg.get(name)
        if fn is None:
            # still look inside the arguments so that the first fault is deterministic
            raise Fault("unknown-function", name)
        if len(args) != len(fn["params"]):
            raise Fault("arity", name)
        for p, a in zip(fn["params"], args):
            t = a[0]
            if t == "lit":
                if p != VALUE:
                    raise Fault(f"literal-for-{p}", name)
            elif t == "q":
                self.query(a)
                if p == VALUE and not is_singular(a):
                    raise Fault("non-singular-for-Value", name)
            elif t == "call":
                ret = self.call(a)
                if p == VALUE and ret != VALUE:
                    raise Fault(f"{ret}-call-for-Value", name)
                if p == NODES and ret != NODES:
                    raise Fault(f"{ret}-call-for-Nodes", name)
                if p == LOGICAL and ret == VALUE:
                    raise Fault("Value-call-for-Logical", name)
            elif t in EXPR_TAGS:
                self.logical(a)
                if p != LOGICAL:
                    raise Fault(f"logical-expr-for-{p}", name)
            else:
                raise ValueError(t)
        return fn["ret"]


def check(ast, registry=None, lo=-LIM, hi=LIM):
    """None if valid; else (category, detail)."""
    try:
        Checker(registry, lo, hi).query(ast)
    except Fault as f:
        return (f.category, f.detail)
    return None


def all_faults(ast, registry=None, lo=-LIM, hi=LIM):
    """Like check() (first fault only); kept separate for callers that only need a bool."""
    return check(ast, registry, lo, hi)
