"""Reference I-Regexp (RFC 9485) parser and matcher.

The ABNF of RFC 9485 section 3 is transcribed rule by rule; matching works on sets of
end positions (no backtracking pathologies, no host regex dialect).
  match(p, s)  <=> the whole of s is in L(p)
  search(p, s) <=> some substring of s is in L(p)
Invalid patterns give False for both.
"""
from __future__ import annotations

import functools
import unicodedata


class Invalid(Exception):
    pass


def _normal_char(c):
    o = ord(c)
    return (o <= 0x27 or c in ",-" or 0x2F <= o <= 0x3E or 0x40 <= o <= 0x5A or 0x5E <= o <= 0x7A
            or 0x7E <= o <= 0xD7FF or 0xE000 <= o <= 0x10FFFF)


def _cc_char(c):
    o = ord(c)
    return o <= 0x2C or 0x2E <= o <= 0x5A or 0x5E <= o <= 0xD7FF or 0xE000 <= o <= 0x10FFFF


_SINGLE_ESC = set("()*+-.?[\\]^nrt{|}")
_ESC_VALUE = {"n": "\n", "r": "\r", "t": "\t"}
_CATS = {
    "L": "lmotu", "M": "cen", "N": "dlo", "P": "cdefios", "Z": "lps", "S": "ckmo", "C": "cfno",
}


class _Parser:
    def __init__(self, p):
        self.p = p
        self.n = len(p)
        self.i = 0

    def peek(self):
        return self.p[self.i] if self.i < self.n else ""

    def parse(self):
        r = self.regexp()
        if self.i != self.n:
            raise Invalid(f"unexpected {self.peek()!r} at {self.i}")
        return r

    def regexp(self):
        branches = [self.branch()]
        while self.peek() == "|":
            self.i += 1
            branches.append(self.branch())
        return ("alt", branches)

    def branch(self):
        pieces = []
        while self.i < self.n and self.peek() not in "|)":
            pieces.append(self.piece())
        return ("seq", pieces)

    def piece(self):
        a = self.atom()
        c = self.peek()
        if c and c in "*+?":
            self.i += 1
            return ("rep", a, {"*": 0, "+": 1, "?": 0}[c], {"*": None, "+": None, "?": 1}[c])
        if c == "{":
            self.i += 1
            lo = self.digits()
            hi = lo
            if self.peek() == ",":
                self.i += 1
                hi = self.digits() if self.peek().isdigit() and self.peek().isascii() else None
            if self.peek() != "}":
                raise Invalid("bad range quantifier")
            self.i += 1
            if hi is not None and hi < lo:
                # RFC 9485 does not forbid it grammatically; the language is empty
                return ("rep", a, lo, hi)
            return ("rep", a, lo, hi)
        return a

    def digits(self):
        j = self.i
        while self.i < self.n and "0" <= self.p[self.i] <= "9":
            self.i += 1
        if j == self.i:
            raise Invalid("digits expected")
        return int(self.p[j:self.i])

    def atom(self):
        c = self.peek()
        if c == "(":
            self.i += 1
            r = self.regexp()
            if self.peek() != ")":
                raise Invalid("unbalanced (")
            self.i += 1
            return ("group", r)
        if c == ".":
            self.i += 1
            return ("dot",)
        if c == "\\":
            return self.escape(in_class=False)
        if c == "[":
            return self.class_expr()
        if c and _normal_char(c):
            self.i += 1
            return ("char", c)
        raise Invalid(f"unexpected {c!r}")

    def escape(self, in_class):
        # at backslash
        e = self.p[self.i + 1] if self.i + 1 < self.n else ""
        if e in ("p", "P"):
            if self.p[self.i + 2:self.i + 3] != "{":
                raise Invalid("bad category escape")
            j = self.p.find("}", self.i + 3)
            if j < 0:
                raise Invalid("bad category escape")
            prop = self.p[self.i + 3:j]
            if not (1 <= len(prop) <= 2 and prop[0] in _CATS and (len(prop) == 1 or prop[1] in _CATS[prop[0]])):
                raise Invalid("unknown category")
            self.i = j + 1
            return ("cat", prop, e == "P")
        if e and e in _SINGLE_ESC:
            self.i += 2
            return ("char", _ESC_VALUE.get(e, e))
        raise Invalid(f"bad escape \\{e}")

    def class_expr(self):
        # "[" ["^"] ("-" / CCE1) *CCE1 ["-"] "]"
        self.i += 1
        neg = False
        if self.peek() == "^":
            neg = True
            self.i += 1
        items = []
        if self.peek() == "-":
            self.i += 1
            items.append(("range", "-", "-"))
        else:
            items.append(self.cce1())
        while True:
            c = self.peek()
            if c == "":
                raise Invalid("unclosed class")
            if c == "]":
                self.i += 1
                return ("class", neg, items)
            if c == "-":
                if self.p[self.i + 1:self.i + 2] == "]":
                    items.append(("range", "-", "-"))
                    self.i += 2
                    return ("class", neg, items)
                raise Invalid("misplaced - in class")
            items.append(self.cce1())

    def cc_char(self):
        c = self.peek()
        if c == "\\":
            e = self.p[self.i + 1] if self.i + 1 < self.n else ""
            if e and e in _SINGLE_ESC:
                self.i += 2
                return _ESC_VALUE.get(e, e)
            raise Invalid("bad escape in class")
        if c and _cc_char(c):
            self.i += 1
            return c
        raise Invalid(f"unexpected {c!r} in class")

    def cce1(self):
        if self.peek() == "\\" and self.p[self.i + 1:self.i + 2] in ("p", "P"):
            return self.escape(in_class=True)
        lo = self.cc_char()
        # CCchar [ "-" CCchar ]  -- a "-" directly before "]" is the trailing "-" instead
        if self.peek() == "-" and self.p[self.i + 1:self.i + 2] not in ("]", ""):
            self.i += 1
            hi = self.cc_char()
            if ord(hi) < ord(lo):
                raise Invalid("reversed range")
            return ("range", lo, hi)
        return ("range", lo, lo)


@functools.lru_cache(maxsize=4096)
def parse(pattern: str):
    """AST or None when the pattern is not a valid I-Regexp."""
    if any(0xD800 <= ord(c) <= 0xDFFF for c in pattern):
        return None
    try:
        return _Parser(pattern).parse()
    except Invalid:
        return None


def valid(pattern: str) -> bool:
    return parse(pattern) is not None


def _cat_match(prop, complement, c):
    cat = unicodedata.category(c)
    hit = cat.startswith(prop)
    return hit != complement


def _one(node, c):
    t = node[0]
    if t == "char":
        return c == node[1]
    if t == "dot":
        return c not in "\n\r"
    if t == "cat":
        return _cat_match(node[1], node[2], c)
    if t == "class":
        hit = False
        for it in node[2]:
            if it[0] == "range":
                if it[1] <= c <= it[2]:
                    hit = True
                    break
            elif _cat_match(it[1], it[2], c):
                hit = True
                break
        return hit != node[1]
    raise ValueError(t)


def _ends(node, s, starts):
    """Set of end positions reachable from the set `starts` by matching node."""
    t = node[0]
    if t in ("char", "dot", "cat", "class"):
        n = len(s)
        return {i + 1 for i in starts if i < n and _one(node, s[i])}
    if t == "group":
        return _ends(node[1], s, starts)
    if t == "alt":
        out = set()
        for b in node[1]:
            out |= _ends(b, s, starts)
        return out
    if t == "seq":
        cur = set(starts)
        for p in node[1]:
            if not cur:
                break
            cur = _ends(p, s, cur)
        return cur
    if t == "rep":
        _, a, lo, hi = node
        if hi is not None and hi < lo:
            return set()
        cur = set(starts)
        for _ in range(lo):
            nxt = _ends(a, s, cur)
            if nxt == cur:
                break  # fixed point: every further iteration gives the same set
            cur = nxt
            if not cur:
                return set()
        result = set(cur)
        frontier = cur
        k = lo
        while frontier and (hi is None or k < hi):
            frontier = _ends(a, s, frontier) - result
            result |= frontier
            k += 1
        return result
    raise ValueError(t)


def match(pattern: str, s: str) -> bool:
    ast = parse(pattern)
    if ast is None:
        return False
    return len(s) in _ends(ast, s, {0})


def search(pattern: str, s: str) -> bool:
    ast = parse(pattern)
    if ast is None:
        return False
    return bool(_ends(ast, s, set(range(len(s) + 1))))
