"""Reference evaluator for RFC 9535 sections 2.3-2.5, written for obviousness.

AST (JSON-able lists; tuples accepted):
  query     ["q", "$"|"@", [segment...]]
  segment   ["child", [selector...]] | ["desc", [selector...]]
  selector  ["name", str] | ["index", int] | ["slice", start|None, end|None, step|None]
            | ["wild"] | ["filter", expr]
  expr      ["or", [expr...]] | ["and", [expr...]] | ["not", expr] | ["paren", expr]
            | ["cmp", op, comparable, comparable] | ["test", query|call]
  comparable / argument:  ["lit", value] | query | ["call", name, [argument...]] | expr

A nodelist is a list of (location tuple, value); values are reached by reference
so identity can be checked.
"""
from __future__ import annotations

from typing import Any


class _Nothing:
    __slots__ = ()

    def __repr__(self):
        return "<Nothing>"


NOTHING = _Nothing()

VALUE, LOGICAL, NODES = "Value", "Logical", "Nodes"


# ----------------------------------------------------------------------- kinds
def kind(v: Any) -> str:
    if v is NOTHING:
        return "nothing"
    if v is None:
        return "null"
    if v is True or v is False:
        return "bool"
    if isinstance(v, (int, float)):
        return "num"
    if isinstance(v, str):
        return "str"
    if isinstance(v, list):
        return "arr"
    if isinstance(v, dict):
        return "obj"
    raise TypeError(f"not a JSON value: {type(v)}")


def json_eq(a: Any, b: Any) -> bool:
    """Equality of JSON values: type-strict at every depth, numbers by numeric value."""
    ka, kb = kind(a), kind(b)
    if ka != kb:
        return False
    if ka in ("null", "nothing"):
        return True
    if ka == "bool":
        return a is b
    if ka == "num":
        return a == b  # Python compares int with float exactly
    if ka == "str":
        return a == b
    if ka == "arr":
        return len(a) == len(b) and all(json_eq(x, y) for x, y in zip(a, b))
    # objects: same member names, equal values, order irrelevant
    if len(a) != len(b):
        return False
    for k, v in a.items():
        if k not in b or not json_eq(v, b[k]):
            return False
    return True


def cmp_eq(a: Any, b: Any) -> bool:
    if a is NOTHING or b is NOTHING:
        return a is NOTHING and b is NOTHING
    return json_eq(a, b)


def cmp_lt(a: Any, b: Any) -> bool:
    if a is NOTHING or b is NOTHING:
        return False
    ka, kb = kind(a), kind(b)
    if ka == "num" and kb == "num":
        return a < b
    if ka == "str" and kb == "str":
        return a < b  # code point order
    return False


def compare(a: Any, op: str, b: Any) -> bool:
    if op == "==":
        return cmp_eq(a, b)
    if op == "!=":
        return not cmp_eq(a, b)
    if op == "<":
        return cmp_lt(a, b)
    if op == ">":
        return cmp_lt(b, a)
    if op == "<=":
        return cmp_lt(a, b) or cmp_eq(a, b)
    if op == ">=":
        return cmp_lt(b, a) or cmp_eq(a, b)
    raise ValueError(op)


# ---------------------------------------------------------------------- slices
def slice_indices(length: int, start, end, step):
    """RFC 9535 2.3.4.2.2: Normalize / Bounds / iterate, verbatim."""
    if step is None:
        step = 1
    if step == 0:
        return []
    if start is None:
        start = 0 if step >= 0 else length - 1
    if end is None:
        end = length if step >= 0 else -length - 1

    def normalize(i):
        return i if i >= 0 else length + i

    n_start, n_end = normalize(start), normalize(end)
    if step >= 0:
        lower = min(max(n_start, 0), length)
        upper = min(max(n_end, 0), length)
    else:
        upper = min(max(n_start, -1), length - 1)
        lower = min(max(n_end, -1), length - 1)
    out = []
    if step > 0:
        # jump straight to the end when step is astronomically large
        i = lower
        while i < upper:
            out.append(i)
            i += step
    else:
        i = upper
        while lower < i:
            out.append(i)
            i += step
    return out


# ------------------------------------------------------------------- functions
def _length(v):
    k = kind(v)
    if k in ("str", "arr", "obj"):
        return len(v)
    return NOTHING


def _count(nodes):
    return len(nodes)


def _value(nodes):
    return nodes[0][1] if len(nodes) == 1 else NOTHING


def _match(s, p):
    from . import iregexp  # noqa: PLC0415

    if not isinstance(s, str) or not isinstance(p, str):
        return False
    return iregexp.match(p, s)


def _search(s, p):
    from . import iregexp  # noqa: PLC0415

    if not isinstance(s, str) or not isinstance(p, str):
        return False
    return iregexp.search(p, s)


BUILTINS = {
    "length": {"params": [VALUE], "ret": VALUE, "impl": _length},
    "count": {"params": [NODES], "ret": VALUE, "impl": _count},
    "value": {"params": [NODES], "ret": VALUE, "impl": _value},
    "match": {"params": [VALUE, VALUE], "ret": LOGICAL, "impl": _match},
    "search": {"params": [VALUE, VALUE], "ret": LOGICAL, "impl": _search},
}


# ------------------------------------------------------------------- evaluator
class Evaluator:
    def __init__(self, registry=None, call_log=None):
        self.registry = BUILTINS if registry is None else registry
        self.call_log = call_log  # list receiving (name, [converted args]) if not None
        self.filter_stats = None  # list receiving (children, selected) per filter application

    # -- queries ------------------------------------------------------------
    def query(self, q, root, current=None):
        assert q[0] == "q"
        start = root if q[1] == "$" else current
        nodes = [((), start)]
        for seg in q[2]:
            nodes = self.segment(seg, nodes, root)
        return nodes

    def segment(self, seg, nodes, root):
        out = []
        if seg[0] == "child":
            for loc, v in nodes:
                for sel in seg[1]:
                    out.extend(self.selector(sel, loc, v, root))
        elif seg[0] == "desc":
            for loc, v in nodes:
                for dloc, dv in self.descendants(loc, v):
                    for sel in seg[1]:
                        out.extend(self.selector(sel, dloc, dv, root))
        else:
            raise ValueError(seg[0])
        return out

    @staticmethod
    def descendants(loc, v):
        """The node itself and all its descendants in document pre-order (iterative)."""
        out = []
        stack = [(loc, v)]
        while stack:
            l, x = stack.pop()
            out.append((l, x))
            if isinstance(x, dict):
                kids = [(l + (k,), c) for k, c in x.items()]
            elif isinstance(x, list):
                kids = [(l + (i,), c) for i, c in enumerate(x)]
            else:
                kids = []
            stack.extend(reversed(kids))
        return out

    def selector(self, sel, loc, v, root):
        t = sel[0]
        if t == "name":
            if isinstance(v, dict) and sel[1] in v:
                return [(loc + (sel[1],), v[sel[1]])]
            return []
        if t == "index":
            if isinstance(v, list):
                i = sel[1]
                n = len(v)
                j = i if i >= 0 else n + i
                if 0 <= j < n:
                    return [(loc + (j,), v[j])]
            return []
        if t == "slice":
            if isinstance(v, list):
                return [(loc + (i,), v[i]) for i in slice_indices(len(v), sel[1], sel[2], sel[3])]
            return []
        if t == "wild":
            return self.children(loc, v)
        if t == "filter":
            kids = self.children(loc, v)
            out = [(l, c) for l, c in kids if self.logical(sel[1], root, c)]
            if self.filter_stats is not None:
                self.filter_stats.append((len(kids), len(out)))
            return out
        raise ValueError(t)

    @staticmethod
    def children(loc, v):
        if isinstance(v, dict):
            return [(loc + (k,), c) for k, c in v.items()]
        if isinstance(v, list):
            return [(loc + (i,), c) for i, c in enumerate(v)]
        return []

    # -- filter expressions ---------------------------------------------------
    def logical(self, e, root, cur) -> bool:
        t = e[0]
        if t == "or":
            # no short circuit: every operand is evaluated (calls are pure)
            vals = [self.logical(x, root, cur) for x in e[1]]
            return any(vals)
        if t == "and":
            vals = [self.logical(x, root, cur) for x in e[1]]
            return all(vals)
        if t == "not":
            return not self.logical(e[1], root, cur)
        if t == "paren":
            return self.logical(e[1], root, cur)
        if t == "cmp":
            a = self.comparable(e[2], root, cur)
            b = self.comparable(e[3], root, cur)
            return compare(a, e[1], b)
        if t == "test":
            x = e[1]
            if x[0] == "q":
                return len(self.query(x, root, cur)) > 0
            if x[0] == "call":
                ret, val = self.call(x, root, cur)
                if ret == LOGICAL:
                    return bool(val)
                if ret == NODES:
                    return len(val) > 0
                raise TypeError("ValueType call used as test")
            raise ValueError(x[0])
        raise ValueError(t)

    def comparable(self, c, root, cur):
        t = c[0]
        if t == "lit":
            return c[1]
        if t == "q":
            nodes = self.query(c, root, cur)
            assert len(nodes) <= 1, "non-singular query compared"
            return nodes[0][1] if nodes else NOTHING
        if t == "call":
            ret, val = self.call(c, root, cur)
            if ret != VALUE:
                raise TypeError("non-ValueType call compared")
            return val
        raise ValueError(t)

    def call(self, c, root, cur):
        name, args = c[1], c[2]
        fn = self.registry[name]
        conv = []
        for ptype, a in zip(fn["params"], args):
            conv.append(self.argument(ptype, a, root, cur))
        if self.call_log is not None:
            self.call_log.append((name, conv))
        return fn["ret"], fn["impl"](*conv)

    def argument(self, ptype, a, root, cur):
        t = a[0]
        if ptype == VALUE:
            if t == "lit":
                return a[1]
            if t == "q":
                nodes = self.query(a, root, cur)
                assert len(nodes) <= 1
                return nodes[0][1] if nodes else NOTHING
            if t == "call":
                ret, val = self.call(a, root, cur)
                assert ret == VALUE
                return val
            raise TypeError(f"{t} for ValueType parameter")
        if ptype == NODES:
            if t == "q":
                return self.query(a, root, cur)
            if t == "call":
                ret, val = self.call(a, root, cur)
                assert ret == NODES
                return val
            raise TypeError(f"{t} for NodesType parameter")
        if ptype == LOGICAL:
            if t == "q":
                return len(self.query(a, root, cur)) > 0
            if t == "call":
                ret, val = self.call(a, root, cur)
                if ret == LOGICAL:
                    return bool(val)
                if ret == NODES:
                    return len(val) > 0
                raise TypeError("ValueType call for LogicalType parameter")
            if t == "lit":
                raise TypeError("literal for LogicalType parameter")
            return self.logical(a, root, cur)
        raise ValueError(ptype)


_DEFAULT = Evaluator()


def find(q, doc, registry=None):
    """Nodelist [(location, value)] of query AST q applied to doc."""
    ev = _DEFAULT if registry is None else Evaluator(registry)
    return ev.query(q, doc)


def same_nodelist(ref_nodes, lib_nodes, doc=None):
    """Compare a reference nodelist with the library's [(location, value)].

    Same length, same locations in order, and the values are the very same objects
    (identity) - for scalars identity of the object reached through the location.
    """
    if len(ref_nodes) != len(lib_nodes):
        return False
    for (rl, rv), (ll, lv) in zip(ref_nodes, lib_nodes):
        if tuple(rl) != tuple(ll):
            return False
        if not all(type(a) is type(b) for a, b in zip(rl, ll)):
            return False
        if rv is not lv:
            return False
    return True


def show_nodes(nodes, limit=12):
    out = []
    for loc, v in nodes[:limit]:
        try:
            import json  # noqa: PLC0415

            s = json.dumps(v, ensure_ascii=True, default=repr)
        except Exception:  # noqa: BLE001
            s = repr(v)
        out.append([list(loc), s[:80]])
    if len(nodes) > limit:
        out.append(f"... {len(nodes) - limit} more")
    return out
