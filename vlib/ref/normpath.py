"""Reference for RFC 9535 section 2.7 normalized paths: renderer and strict recogniser."""
from __future__ import annotations

_NAMED = {"\b": "b", "\f": "f", "\n": "n", "\r": "r", "\t": "t", "'": "'", "\\": "\\"}
_UNNAMED = {v: k for k, v in _NAMED.items()}


def render_name(name: str) -> str:
    out = []
    for c in name:
        if c in _NAMED:
            out.append("\\" + _NAMED[c])
        elif ord(c) < 0x20:
            out.append("\\u%04x" % ord(c))
        else:
            out.append(c)
    return "'" + "".join(out) + "'"


def render(location) -> str:
    out = ["$"]
    for k in location:
        if isinstance(k, bool) or not isinstance(k, (int, str)):
            raise TypeError(f"bad location element {k!r}")
        if isinstance(k, int):
            if k < 0:
                raise ValueError("negative index in a location")
            out.append(f"[{k}]")
        else:
            out.append("[" + render_name(k) + "]")
    return "".join(out)


def recognise(path: str):
    """Location tuple if path is derivable from the normalized-path ABNF, else None."""
    if not path.startswith("$"):
        return None
    i, n = 1, len(path)
    loc = []
    while i < n:
        if path[i] != "[":
            return None
        i += 1
        if i < n and path[i] == "'":
            i += 1
            name = []
            while True:
                if i >= n:
                    return None
                c = path[i]
                o = ord(c)
                if c == "'":
                    i += 1
                    break
                if c == "\\":
                    if i + 1 >= n:
                        return None
                    e = path[i + 1]
                    if e in _UNNAMED:
                        name.append(_UNNAMED[e])
                        i += 2
                    elif e == "u":
                        h = path[i + 2:i + 6]
                        # normal-hexchar = "00" ( "0" %x30-37 / "0b" / "0e"-"0f" / "1" normal-HEXDIG )
                        if len(h) != 4 or h[:2] != "00":
                            return None
                        if h[2] == "0" and h[3] in "01234567bef":
                            pass
                        elif h[2] == "1" and h[3] in "0123456789abcdef":
                            pass
                        else:
                            return None
                        name.append(chr(int(h, 16)))
                        i += 6
                    else:
                        return None
                elif 0x20 <= o <= 0x26 or 0x28 <= o <= 0x5B or 0x5D <= o <= 0xD7FF or 0xE000 <= o <= 0x10FFFF:
                    name.append(c)
                    i += 1
                else:
                    return None
            loc.append("".join(name))
        else:
            j = i
            while j < n and path[j].isdigit() and path[j].isascii():
                j += 1
            digits = path[i:j]
            if not digits or (len(digits) > 1 and digits[0] == "0"):
                return None
            loc.append(int(digits))
            i = j
        if i >= n or path[i] != "]":
            return None
        i += 1
    return tuple(loc)
