"""Reference recogniser + parser for the RFC 9535 ABNF (Appendix A), rule by rule.

Every structural rule is a function  position -> {end position: AST}  memoised per
(rule, position); alternatives are all explored, sequences thread every possible end
through the next element, so membership in the context-free language is decided
exactly (no ordered choice above the lexical level).  Lexical rules (blank space,
member-name-shorthand, int, number, string-literal, function-name, keywords) use
maximal munch; that is exact for this grammar because no construct that may follow one
of these lexemes can begin with a character that would also continue the lexeme (names
are followed by blank/'.'/'['/operators/')'/','/']', numbers likewise, strings end at
their unique closing quote), and optional groups that start with S are still explored
both ways by the structural level.

Verdicts: VALID (with AST), INVALID (with the furthest position reached and the rules
expected there), DISPUTED (see DESIGN.md section 3).

AST shapes are documented in vlib/ref/evaluate.py.
"""
from __future__ import annotations

import sys

VALID, INVALID, DISPUTED = "VALID", "INVALID", "DISPUTED"
BLANK = " \t\n\r"
LIM = 2**53 - 1

if sys.getrecursionlimit() < 20000:
    sys.setrecursionlimit(20000)


def _is_name_first(c: str) -> bool:
    o = ord(c)
    return (0x41 <= o <= 0x5A or 0x61 <= o <= 0x7A or c == "_"
            or 0x80 <= o <= 0xD7FF or 0xE000 <= o <= 0x10FFFF)


def _is_name_char(c: str) -> bool:
    return _is_name_first(c) or "0" <= c <= "9"


def _is_unescaped(c: str) -> bool:
    o = ord(c)
    return (0x20 <= o <= 0x21 or 0x23 <= o <= 0x26 or 0x28 <= o <= 0x5B
            or 0x5D <= o <= 0xD7FF or 0xE000 <= o <= 0x10FFFF)


def _to_int(text: str) -> int:
    """int(text); digit strings beyond the interpreter's str->int limit are replaced by a power of ten of the same
    magnitude (exact value irrelevant: such integers are far outside every range this module reasons about)."""
    digits = len(text.lstrip("-"))
    if digits > 4000:
        v = 10 ** (digits - 1)
        return -v if text.startswith("-") else v
    return int(text)


HEX = "0123456789abcdefABCDEF"
_ESC = {"b": "\b", "f": "\f", "n": "\n", "r": "\r", "t": "\t", "/": "/", "\\": "\\"}


class Result:
    __slots__ = ("verdict", "ast", "far", "rules", "why")

    def __init__(self, verdict, ast=None, far=0, rules=(), why=""):
        self.verdict, self.ast, self.far, self.rules, self.why = verdict, ast, far, tuple(sorted(rules)), why

    def __repr__(self):
        return f"Result({self.verdict}, far={self.far}, rules={self.rules}, why={self.why!r})"


class AmbiguityError(Exception):
    pass


class P:
    def __init__(self, text: str, relaxed: bool = False):
        self.t = text
        self.n = len(text)
        self.memo = {}
        self.far = 0
        self.far_rules = set()
        self.relaxed = relaxed

    # ---- bookkeeping ----------------------------------------------------
    def miss(self, i, rule):
        if i > self.far:
            self.far = i
            self.far_rules = {rule}
        elif i == self.far:
            self.far_rules.add(rule)

    def lit(self, i, s, rule=None):
        """Exact (case-sensitive) literal; returns end or None."""
        if self.t.startswith(s, i):
            return i + len(s)
        self.miss(i, rule or repr(s))
        return None

    def memoised(self, name, i, fn):
        key = (name, i)
        r = self.memo.get(key)
        if r is None:
            r = fn(i)
            self.memo[key] = r
        return r

    @staticmethod
    def put(d, end, ast):
        if end in d and d[end] != ast:
            raise AmbiguityError(f"two parses ending at {end}: {d[end]!r} vs {ast!r}")
        d[end] = ast

    # ---- lexical level ----------------------------------------------------
    def S(self, i):
        t, n = self.t, self.n
        while i < n and t[i] in BLANK:
            i += 1
        return i

    def int_(self, i):
        """int = "0" / (["-"] DIGIT1 *DIGIT); returns (end, value) or None."""
        t, n = self.t, self.n
        j = i
        if j < n and t[j] == "0":
            return j + 1, 0
        if j < n and t[j] == "-":
            j += 1
        if j < n and "1" <= t[j] <= "9":
            j += 1
            while j < n and "0" <= t[j] <= "9":
                j += 1
            return j, _to_int(t[i:j])
        self.miss(j, "int")
        return None

    def number(self, i):
        """number = (int / "-0") [frac] [exp]; returns (end, value) or None."""
        t, n = self.t, self.n
        if t.startswith("-0", i):
            j = i + 2
        else:
            r = self.int_(i)
            if r is None:
                return None
            j = r[0]
        is_int = True
        # frac = "." 1*DIGIT
        if j < n and t[j] == ".":
            k = j + 1
            while k < n and "0" <= t[k] <= "9":
                k += 1
            if k > j + 1:
                j = k
                is_int = False
            else:
                self.miss(k, "frac")
        # exp = "e" ["-"/"+"] 1*DIGIT   ("e" is a case-insensitive ABNF string)
        if j < n and t[j] in "eE":
            k = j + 1
            if k < n and t[k] in "+-":
                k += 1
            m = k
            while m < n and "0" <= t[m] <= "9":
                m += 1
            if m > k:
                j = m
                is_int = False
            else:
                self.miss(m, "exp")
        text = t[i:j]
        if is_int:
            return j, _to_int(text)
        try:
            return j, float(text)
        except OverflowError:  # pragma: no cover - float() returns inf, it does not raise
            return j, float("inf")

    def string_literal(self, i):
        """Returns (end, decoded) or None."""
        t, n = self.t, self.n
        if i >= n or t[i] not in "'\"":
            self.miss(i, "string-literal")
            return None
        q = t[i]
        other = "'" if q == '"' else '"'
        out = []
        j = i + 1
        while True:
            if j >= n:
                self.miss(j, "string-literal:unclosed")
                return None
            c = t[j]
            if c == q:
                return j + 1, "".join(out)
            if c == other or _is_unescaped(c):
                out.append(c)
                j += 1
                continue
            if c != "\\":
                self.miss(j, "string-literal:char")
                return None
            # ESC
            if j + 1 >= n:
                self.miss(j + 1, "string-literal:escape")
                return None
            e = t[j + 1]
            if e == q:
                out.append(q)
                j += 2
            elif e in _ESC:
                out.append(_ESC[e])
                j += 2
            elif e == "u":
                r = self.hexchar(j + 2)
                if r is None:
                    return None
                j, ch = r
                out.append(ch)
            else:
                self.miss(j + 1, "string-literal:escape")
                return None

    def hexchar(self, i):
        """hexchar = non-surrogate / (high-surrogate "\\" "u" low-surrogate); i is after 'u'."""
        t = self.t
        h = t[i:i + 4]
        if len(h) < 4 or any(c not in HEX for c in h):
            self.miss(i, "hexchar")
            return None
        cp = int(h, 16)
        if 0xDC00 <= cp <= 0xDFFF:
            self.miss(i, "hexchar:lone-low-surrogate")
            return None
        if 0xD800 <= cp <= 0xDBFF:
            if t[i + 4:i + 6] != "\\u":
                self.miss(i + 4, "hexchar:low-surrogate")
                return None
            l = t[i + 6:i + 10]
            if len(l) < 4 or any(c not in HEX for c in l):
                self.miss(i + 6, "hexchar:low-surrogate")
                return None
            lo = int(l, 16)
            if not 0xDC00 <= lo <= 0xDFFF:
                self.miss(i + 6, "hexchar:low-surrogate")
                return None
            return i + 10, chr(0x10000 + ((cp - 0xD800) << 10) + (lo - 0xDC00))
        return i + 4, chr(cp)

    def shorthand(self, i):
        """member-name-shorthand = name-first *name-char; returns (end, name) or None."""
        t, n = self.t, self.n
        if i < n and _is_name_first(t[i]):
            j = i + 1
            while j < n and _is_name_char(t[j]):
                j += 1
            return j, t[i:j]
        self.miss(i, "member-name-shorthand")
        return None

    def function_name(self, i):
        t, n = self.t, self.n
        if i < n and "a" <= t[i] <= "z":
            j = i + 1
            while j < n and ("a" <= t[j] <= "z" or t[j] == "_" or "0" <= t[j] <= "9"):
                j += 1
            return j, t[i:j]
        self.miss(i, "function-name")
        return None

    def literal(self, i):
        """literal = number / string-literal / true / false / null; (end, ["lit", v]) or None."""
        t = self.t
        if i < self.n:
            c = t[i]
            if c in "'\"":
                r = self.string_literal(i)
                return None if r is None else (r[0], ["lit", r[1]])
            if c == "-" or "0" <= c <= "9":
                r = self.number(i)
                return None if r is None else (r[0], ["lit", r[1]])
            for kw, v in (("true", True), ("false", False), ("null", None)):
                if t.startswith(kw, i):
                    return i + len(kw), ["lit", v]
        self.miss(i, "literal")
        return None

    # ---- structural level: position -> {end: ast} --------------------------
    def jsonpath_query(self, i):
        return self.memoised("jsonpath-query", i, self._jsonpath_query)

    def _jsonpath_query(self, i):
        e = self.lit(i, "$", "root-identifier")
        if e is None:
            return {}
        return {end: ["q", "$", segs] for end, segs in self.segments(e).items()}

    def rel_query(self, i):
        return self.memoised("rel-query", i, self._rel_query)

    def _rel_query(self, i):
        e = self.lit(i, "@", "current-node-identifier")
        if e is None:
            return {}
        return {end: ["q", "@", segs] for end, segs in self.segments(e).items()}

    def segments(self, i):
        return self.memoised("segments", i, self._segments)

    def _segments(self, i):
        # *(S segment)
        out = {i: []}
        frontier = {i: []}
        while frontier:
            new = {}
            for pos, segs in frontier.items():
                s = self.S(pos)
                for e, seg in self.segment(s).items():
                    self.put(new, e, segs + [seg])
            for e, segs in new.items():
                self.put(out, e, segs)
            frontier = new
        return out

    def segment(self, i):
        return self.memoised("segment", i, self._segment)

    def _segment(self, i):
        t = self.t
        out = {}
        if t.startswith("..", i):
            j = i + 2
            for e, sels in self.bracketed_selection(j).items():
                self.put(out, e, ["desc", sels])
            if t.startswith("*", j):
                self.put(out, j + 1, ["desc", [["wild"]]])
            else:
                r = self.shorthand(j)
                if r:
                    self.put(out, r[0], ["desc", [["name", r[1]]]])
            return out
        if t.startswith("[", i):
            for e, sels in self.bracketed_selection(i).items():
                self.put(out, e, ["child", sels])
            return out
        if t.startswith(".", i):
            j = i + 1
            if t.startswith("*", j):
                self.put(out, j + 1, ["child", [["wild"]]])
            else:
                r = self.shorthand(j)
                if r:
                    self.put(out, r[0], ["child", [["name", r[1]]]])
            return out
        self.miss(i, "segment")
        return out

    def bracketed_selection(self, i):
        return self.memoised("bracketed-selection", i, self._bracketed_selection)

    def _bracketed_selection(self, i):
        # "[" S selector *(S "," S selector) S "]"
        e = self.lit(i, "[", "bracketed-selection")
        if e is None:
            return {}
        out = {}
        frontier = {}
        for e1, sel in self.selector(self.S(e)).items():
            self.put(frontier, e1, [sel])
        while frontier:
            new = {}
            for pos, sels in frontier.items():
                s = self.S(pos)
                close = self.lit(s, "]", "']'")
                if close is not None:
                    self.put(out, close, sels)
                comma = self.lit(s, ",", "','")
                if comma is not None:
                    for e2, sel in self.selector(self.S(comma)).items():
                        self.put(new, e2, sels + [sel])
            frontier = new
        return out

    def selector(self, i):
        return self.memoised("selector", i, self._selector)

    def _selector(self, i):
        t = self.t
        out = {}
        if i < self.n and t[i] in "'\"":
            r = self.string_literal(i)
            if r:
                self.put(out, r[0], ["name", r[1]])
            return out
        if t.startswith("*", i):
            self.put(out, i + 1, ["wild"])
            return out
        if t.startswith("?", i):
            for e, ex in self.logical_expr(self.S(i + 1)).items():
                self.put(out, e, ["filter", ex])
            return out
        # index-selector
        r = self.int_(i)
        if r:
            self.put(out, r[0], ["index", r[1]])
        # slice-selector = [start S] ":" S [end S] [":" [S step]]
        starts = [(i, None)]
        if r:
            starts.append((self.S(r[0]), r[1]))
        for pos, start in starts:
            c = self.lit(pos, ":", "':'")
            if c is None:
                continue
            after = self.S(c)
            ends = [(after, None), (c, None)]  # with and without consuming the S after ":"
            r2 = self.int_(after)
            if r2:
                ends.append((r2[0], r2[1]))
                ends.append((self.S(r2[0]), r2[1]))
            for pos2, end in ends:
                self.put(out, pos2, ["slice", start, end, None])
                c2 = self.lit(pos2, ":", "':'")
                if c2 is None:
                    continue
                self.put(out, c2, ["slice", start, end, None])
                r3 = self.int_(self.S(c2))
                if r3:
                    self.put(out, r3[0], ["slice", start, end, r3[1]])
        if not out:
            self.miss(i, "selector")
        return out

    # ---- filter expressions -------------------------------------------------
    def logical_expr(self, i):
        return self.memoised("logical-or-expr", i, self._logical_or)

    def _chain(self, i, sub, op, tag):
        out = {}
        frontier = {}
        for e, x in sub(i).items():
            self.put(frontier, e, [x])
        while frontier:
            new = {}
            for pos, xs in frontier.items():
                self.put(out, pos, xs[0] if len(xs) == 1 else [tag, xs])
                o = self.lit(self.S(pos), op, repr(op))
                if o is not None:
                    for e2, x in sub(self.S(o)).items():
                        self.put(new, e2, xs + [x])
            frontier = new
        return out

    def _logical_or(self, i):
        return self._chain(i, self.logical_and, "||", "or")

    def logical_and(self, i):
        return self.memoised("logical-and-expr", i, self._logical_and)

    def _logical_and(self, i):
        return self._chain(i, self.basic_expr, "&&", "and")

    def basic_expr(self, i):
        return self.memoised("basic-expr", i, self._basic_expr)

    def _basic_expr(self, i):
        out = {}
        t = self.t
        # optional logical-not-op S (paren-expr and test-expr only)
        j = i
        neg = False
        if t.startswith("!", i) and not t.startswith("!=", i):
            neg = True
            j = self.S(i + 1)
        elif t.startswith("!=", i):
            # "!" followed by "=": still a logical-not-op as far as the grammar goes, then "=" must fail
            neg = True
            j = self.S(i + 1)

        def wrap(x):
            return ["not", x] if neg else x

        # paren-expr = [logical-not-op S] "(" S logical-expr S ")"
        if t.startswith("(", j):
            for e, ex in self.logical_expr(self.S(j + 1)).items():
                c = self.lit(self.S(e), ")", "')'")
                if c is not None:
                    self.put(out, c, wrap(["paren", ex]))
        # test-expr = [logical-not-op S] (filter-query / function-expr)
        for e, q in self.filter_query(j).items():
            self.put(out, e, wrap(["test", q]))
        for e, c in self.function_expr(j).items():
            self.put(out, e, wrap(["test", c]))
        # comparison-expr = comparable S comparison-op S comparable
        if not neg:
            for e, left in self.comparable(i).items():
                s = self.S(e)
                for op in ("==", "!=", "<=", ">=", "<", ">"):
                    if t.startswith(op, s):
                        for e2, right in self.comparable(self.S(s + len(op))).items():
                            self.put(out, e2, ["cmp", op, left, right])
                if not any(t.startswith(op, s) for op in ("==", "!=", "<", ">")):
                    self.miss(s, "comparison-op")
        if not out:
            self.miss(j, "basic-expr")
        return out

    def filter_query(self, i):
        if self.t.startswith("@", i):
            return self.rel_query(i)
        if self.t.startswith("$", i):
            return self.jsonpath_query(i)
        self.miss(i, "filter-query")
        return {}

    def comparable(self, i):
        return self.memoised("comparable", i, self._comparable)

    def _comparable(self, i):
        out = {}
        t = self.t
        if i < self.n and t[i] in "@$":
            for e, q in self.singular_query(i).items():
                self.put(out, e, q)
            return out
        fe = self.function_expr(i)
        for e, c in fe.items():
            self.put(out, e, c)
        if i < self.n and (t[i] in "'\"-" or "0" <= t[i] <= "9" or t[i] in "tfn"):
            # a keyword literal could also be the prefix of a function name; maximal munch
            # does not apply across rules, so both are offered and the context decides
            r = self.literal(i)
            if r and r[0] not in out:
                self.put(out, r[0], r[1])
        if not out:
            self.miss(i, "comparable")
        return out

    def singular_query(self, i):
        return self.memoised("singular-query", i, self._singular_query)

    def _singular_query(self, i):
        # (@|$) *(S (name-segment / index-segment))
        t = self.t
        root = t[i]
        out = {i + 1: ["q", root, []]}
        frontier = {i + 1: []}
        while frontier:
            new = {}
            for pos, segs in frontier.items():
                s = self.S(pos)
                if t.startswith("[", s):
                    k = s + 1
                    if self.relaxed:
                        k = self.S(k)
                    sel = None
                    if k < self.n and t[k] in "'\"":
                        r = self.string_literal(k)
                        if r:
                            sel = (r[0], ["name", r[1]])
                    else:
                        r = self.int_(k)
                        if r:
                            sel = (r[0], ["index", r[1]])
                    if sel:
                        k2 = self.S(sel[0]) if self.relaxed else sel[0]
                        c = self.lit(k2, "]", "singular-query:']'")
                        if c is not None:
                            self.put(new, c, segs + [["child", [sel[1]]]])
                elif t.startswith(".", s) and not t.startswith("..", s):
                    r = self.shorthand(s + 1)
                    if r:
                        self.put(new, r[0], segs + [["child", [["name", r[1]]]]])
            for e, segs in new.items():
                self.put(out, e, ["q", root, segs])
            frontier = new
        return out

    def function_expr(self, i):
        return self.memoised("function-expr", i, self._function_expr)

    def _function_expr(self, i):
        # function-name "(" S [function-argument *(S "," S function-argument)] S ")"
        t = self.t
        if not (i < self.n and "a" <= t[i] <= "z"):
            return {}
        r = self.function_name(i)
        if r is None:
            return {}
        j, name = r
        if not t.startswith("(", j):
            self.miss(j, "function-expr:'('")
            return {}
        out = {}
        s = self.S(j + 1)
        c = self.lit(s, ")", "')'")
        if c is not None:
            self.put(out, c, ["call", name, []])
        frontier = {}
        for e, a in self.function_argument(s).items():
            self.put(frontier, e, [a])
        while frontier:
            new = {}
            for pos, args in frontier.items():
                s2 = self.S(pos)
                c = self.lit(s2, ")", "')'")
                if c is not None:
                    self.put(out, c, ["call", name, args])
                comma = self.lit(s2, ",", "','")
                if comma is not None:
                    for e2, a in self.function_argument(self.S(comma)).items():
                        self.put(new, e2, args + [a])
            frontier = new
        return out

    def function_argument(self, i):
        return self.memoised("function-argument", i, self._function_argument)

    def _function_argument(self, i):
        # literal / filter-query / logical-expr / function-expr, canonicalised:
        # a bare literal, a bare query and a bare call keep that form; anything else is a
        # logical expression.
        out = {}
        t = self.t
        if i < self.n and (t[i] in "'\"-" or "0" <= t[i] <= "9" or t[i] in "tfn"):
            r = self.literal(i)
            if r:
                out[r[0]] = r[1]
        if i < self.n and t[i] in "@$":
            for e, q in self.filter_query(i).items():
                out.setdefault(e, q)
        for e, c in self.function_expr(i).items():
            out.setdefault(e, c)
        for e, ex in self.logical_expr(i).items():
            if ex[0] == "test":
                out.setdefault(e, ex[1])
            else:
                out.setdefault(e, ex)
        if not out:
            self.miss(i, "function-argument")
        return out

    # ---- entry ---------------------------------------------------------------
    def parse(self):
        r = self.jsonpath_query(0)
        if self.n in r:
            return r[self.n]
        # the furthest miss may be "end of input expected"
        if r:
            self.miss(max(r), "end-of-query")
        return None


def walk_literals(ast):
    """Yield every ["lit", v] in an AST."""
    stack = [ast]
    while stack:
        x = stack.pop()
        if isinstance(x, list):
            if len(x) >= 2 and x[0] == "lit":
                yield x
            else:
                stack.extend(x)


def classify(text: str) -> Result:
    if any(0xD800 <= ord(c) <= 0xDFFF for c in text):
        return Result(DISPUTED, why="surrogate code point in the query text (not a Unicode scalar value)")
    p = P(text)
    ast = p.parse()
    if ast is not None:
        for lit in walk_literals(ast):
            v = lit[1]
            if isinstance(v, float) and (v == float("inf") or v == float("-inf")):
                return Result(DISPUTED, ast=ast, why="number literal overflows a double")
            if isinstance(v, int) and not isinstance(v, bool) and abs(v) > LIM:
                return Result(DISPUTED, ast=ast, why="integer literal outside the I-JSON exact range")
            if isinstance(v, float) and abs(v) > LIM and v == int(v):
                return Result(DISPUTED, ast=ast, why="number literal outside the I-JSON exact range")
        return Result(VALID, ast=ast)
    p2 = P(text, relaxed=True)
    if p2.parse() is not None:
        return Result(DISPUTED, why="blank space inside the brackets of a singular query used as a comparable")
    return Result(INVALID, far=p.far, rules=p.far_rules)


def parse(text: str):
    """AST of a VALID/DISPUTED-with-ast query, else None."""
    r = classify(text)
    return r.ast
