"""Shared machinery for C03 (valid => accepted) and C04 (outside the grammar => rejected)."""
from __future__ import annotations

from vlib import diff, lib, shrink
from vlib.gen import mutate as M
from vlib.gen import queries as Q
from vlib.gen import values as V
from vlib.ref import abnf, typecheck

NAMES = ["a", "b", "c", "d", "e", "_x", "A1", "\u00e9", "\u4e2d\u6587", "\U0001F600", "a\U00010000", "\ud7ff", "\ue000",
         "\U0010FFFF", "x_9", "\x80"]
STRINGS = ["", "a", "b", "ab", "A", "\u00e9", "\U0001F600", "'", '"', "\\", "\n", "\t", "\x00", "\x1f", "\x7f", "/",
           "a'b\"c", "\u2028", "\uffff", "\b\f\r", "\U0010FFFF",
           # strings that look like (bad) regular expressions: any string is a well-typed argument of match()/search()
           "[z-a]", "a{2,1}", "(", "[", "a**", "(?i)a", "\\p{Xx}", "a|", "[^]", "\\", ".*", "[a-z]+"]


def verdict(text, registry=None):
    """(verdict, ast, detail): VALID-WELLTYPED / VALID-ILLTYPED / INVALID / DISPUTED."""
    res = abnf.classify(text)
    if res.verdict == abnf.VALID:
        tc = typecheck.check(res.ast, registry)
        if tc is None:
            if diff.EXCLUDE_R and diff.arg_starts_with_not_or_paren(res.ast):
                return "EXCLUDED-R", res.ast, res
            return "VALID-WELLTYPED", res.ast, res
        return "VALID-ILLTYPED", res.ast, tc
    return res.verdict, res.ast, res


def base_query(r, shard, big=False, registry=None):
    """A valid well-typed query over the whole lexical space."""
    ast, text, used = diff.make_query(r, shard, filters=True, names=NAMES, strings=STRINGS, min_segs=0,
                                      max_segs=4, blank_p=r.choice([0.0, 0.1, 0.3, 0.6]), big_ints=True, registry=registry)
    return ast, text, used


_PROBE_ENV = []


def probe_env():
    """An environment that also knows functions with LogicalType / NodesType parameters and results (the 39 probe
    signatures of C10): grammar questions about function arguments only arise when such functions exist."""
    if not _PROBE_ENV:
        from checks import c10
        _PROBE_ENV.append(c10.lib_env())
    return _PROBE_ENV[0]


def examine_accept(case):
    """C03: VALID and well-typed => compile() returns."""
    v, ast, detail = verdict(case["q"])
    if v != "VALID-WELLTYPED":
        return None
    status, got = lib.compile_(case["q"])
    if status == "ok":
        return None
    msg = got["str"].split(",")[0][:40]
    return {"bucket": f"refused:{got['type']}:{got['frame']}:{diff.shape(msg)}",
            "what": f"valid query {case['q']!r} refused: {got['type']}: {got['str']}",
            "expected": "compile() returns", "observed": got}


def examine_reject(case):
    """C04: not derivable from the ABNF => compile() raises a JSONPathError."""
    v, ast, res = verdict(case["q"])
    if v != abnf.INVALID:
        return None
    status, got = lib.compile_(case["q"])
    if status != "ok" and got["jsonpath_error"] and "(" in case["q"]:
        # not derivable is not derivable whatever functions are registered: ask an environment with more of them too
        s2, g2 = lib.compile_(case["q"], probe_env())
        if s2 == "ok" or not g2["jsonpath_error"]:
            status, got = s2, g2
    if status == "ok":
        return {"bucket": f"accepted:{'/'.join(res.rules)[:60]}:{M.position_class(case['q'], res.far)}",
                "what": f"{case['q']!r} is outside the RFC 9535 grammar (reference stops at offset {res.far}, "
                        f"expecting {', '.join(res.rules)}) but compile() accepted it as {str(got)!r}",
                "expected": "JSONPathError", "observed": f"compiled to {got}"}
    if not got["jsonpath_error"]:
        return {"bucket": f"wrong-exception:{got['type']}:{got['frame']}",
                "what": f"{case['q']!r} raised {got['type']} instead of a JSONPathError: {got['str']}",
                "expected": "JSONPathError", "observed": got}
    return None


def minimise_text(case, failure, examine, budget=3000, fields=3):
    kind = failure["bucket"].split(":")[:fields]

    def ok(t):
        f = examine({"q": t})
        return f is not None and f["bucket"].split(":")[:fields] == kind

    t = shrink.shrink_text(case["q"], ok, shrink.Budget(budget))
    c2 = dict(case, q=t)
    f2 = examine(c2)
    if f2 is None:
        return case, failure
    return c2, f2


def run_atheris_grammar(spec, shard, examine, want_prefix):
    """A libFuzzer campaign with the membership oracle inside the target; failures of the wanted kind become cases."""
    import json
    import os
    import subprocess
    import sys

    here = os.path.dirname(os.path.dirname(os.path.abspath(__file__)))
    work = os.path.join(here, "out", f"atheris-{want_prefix}-{spec['seed']}-{spec['idx']}")
    os.makedirs(work, exist_ok=True)
    for f in os.listdir(work):
        fp = os.path.join(work, f)
        if os.path.isfile(fp):
            os.unlink(fp)
    cmd = [sys.executable, "-X", "utf8", os.path.join(here, "fuzz", "compile_target.py"), "--work", work, "--oracle", "grammar",
           "--corpus", spec["corpus"], "--runs", str(spec["runs"]), "--seed", str(spec["seed"] % (2**31)), "--max-len", "160"]
    try:
        p = subprocess.run(cmd, capture_output=True, text=True, timeout=7200)
    except subprocess.TimeoutExpired:
        shard.notes["atheris-timeout"] += 1
        return
    stats = os.path.join(work, "stats.json")
    if not os.path.exists(stats):
        shard.notes["atheris-unavailable"] += 1
        return
    s = json.load(open(stats))
    shard.evaluations += s["executions"]
    shard.classes["atheris-" + spec["corpus"]] += s["executions"]
    shard.classes["atheris:valid-inputs"] += s["compiled"]
    for h in s["nontrivial_hashes"]:
        shard.nontrivial.add(h)
    for smp in s.get("samples", [])[:3]:
        shard.samples.append({"q": smp, "origin": "atheris-" + spec["corpus"]})
    for q in s["failures"]:
        case = {"q": q}
        f = examine(case)
        if f:
            shard.fail(f["bucket"], case, f, size=len(q))
