#!/venv/bin/python
"""tools/make_patch.py <seed id> <file> -- reads OLD/NEW pairs from a JSON list on stdin, applies them to /repo HEAD's
version of the files in a scratch copy and writes seeded/<id>/patch.diff (used to re-create a seeded patch by hand)."""
import json, os, shutil, subprocess, sys, tempfile
sid = sys.argv[1]
edits = json.load(sys.stdin)
tmp = tempfile.mkdtemp(prefix="mk.", dir="/tmp")
try:
    os.makedirs(f"{tmp}/h"); os.makedirs(f"{tmp}/m")
    subprocess.run(f"git -C /repo archive HEAD | tar -x -C {tmp}/h", shell=True, check=True)
    subprocess.run(f"git -C /repo archive HEAD | tar -x -C {tmp}/m", shell=True, check=True)
    files = []
    for e in edits:
        p = f"{tmp}/m/{e['file']}"
        s = open(p).read()
        assert s.count(e["old"]) == 1, (e["file"], e["old"][:40], s.count(e["old"]))
        open(p, "w").write(s.replace(e["old"], e["new"]))
        if e["file"] not in files:
            files.append(e["file"])
    out = []
    for f in files:
        r = subprocess.run(["git", "diff", "--no-index", "--", f"{tmp}/h/{f}", f"{tmp}/m/{f}"], capture_output=True, text=True)
        out.append(r.stdout.replace(f"a{tmp}/h/", "a/").replace(f"b{tmp}/m/", "b/"))
    open(f"/verif/seeded/{sid}/patch.diff", "w").write("".join(out))
    m = json.load(open(f"/verif/seeded/{sid}/meta.json"))
    m["rebased"] = "patch re-created by hand against /repo HEAD after unrelated fixes rewrote the same lines (same idea, same trigger)"
    json.dump(m, open(f"/verif/seeded/{sid}/meta.json", "w"), indent=1)
    print("wrote", sid)
finally:
    shutil.rmtree(tmp, ignore_errors=True)
