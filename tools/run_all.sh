#!/bin/bash
# usage: tools/run_all.sh [quick|thorough] [seed]   -- runs every check, prints one line each
tier="${1:-quick}"; seed="${2:-1}"
cd "$(dirname "$0")/.."
rc_all=0
for i in $(seq -w 1 20); do
  id="C$i"
  start=$(date +%s)
  out=$(VERIF_SEED=$seed ./check $id --tier $tier 2>&1); rc=$?
  end=$(date +%s)
  echo "$id rc=$rc $((end-start))s $(echo "$out" | grep -c '^KNOWN-FINDING') known | $(echo "$out" | grep "^$id tier" | cut -c1-150)"
  if [ $rc -ne 0 ]; then rc_all=1; echo "$out" | grep -v "^KNOWN" | head -8; fi
done
exit $rc_all
