#!/venv/bin/python
"""Run every mutant spec in mutants/*.json against its checks (quick tier) and print a table.

Spec: {"id":..., "property": "C08", "checks": ["C08"], "edits":[{"file","old","new"}], "note":...}
Each run uses a scratch copy of /repo under /tmp (removed afterwards); /repo is never touched.
"""
import glob, json, os, shutil, subprocess, sys, tempfile, time
from concurrent.futures import ThreadPoolExecutor

only = set(sys.argv[1:])


def run(spec_path):
    s = json.load(open(spec_path))
    if only and s["id"] not in only and not (only & set(s["checks"])):
        return None
    d = tempfile.mkdtemp(prefix="mut.", dir="/tmp")
    try:
        subprocess.run(f"git -C /repo archive HEAD | tar -x -C {d}", shell=True, check=True)
        for e in s["edits"]:
            p = os.path.join(d, e["file"])
            src = open(p, encoding="utf-8").read()
            if src.count(e["old"]) != 1:
                return (s["id"], "SPEC-ERROR", f"'old' occurs {src.count(e['old'])} times", 0)
            open(p, "w", encoding="utf-8").write(src.replace(e["old"], e["new"]))
        env = dict(os.environ, PYTHONPATH=d, PYTHONDONTWRITEBYTECODE="1")
        t = subprocess.run(["/venv/bin/python", "-m", "pytest", "-q", "-p", "no:cacheprovider",
                            "--continue-on-collection-errors"], cwd=d, env=env, capture_output=True, text=True)
        last = t.stdout.strip().splitlines()[-1] if t.stdout.strip() else "?"
        tests_ok = "352 passed" in last
        res = []
        t0 = time.time()
        for c in s["checks"]:
            r = subprocess.run(["./check", c], env=dict(os.environ, VERIF_REPO=d, VERIF_NPROC="4"), cwd="/verif",
                               capture_output=True, text=True)
            res.append(f"{c}={'CAUGHT' if r.returncode == 1 else 'missed' if r.returncode == 0 else 'ERR' + str(r.returncode)}")
        return (s["id"], "tests-pass" if tests_ok else "TESTS-FAIL(" + last[:40] + ")", " ".join(res), time.time() - t0)
    finally:
        shutil.rmtree(d, ignore_errors=True)


specs = sorted(glob.glob("/verif/mutants/*.json"))
with ThreadPoolExecutor(4) as ex:
    for r in ex.map(run, specs):
        if r:
            print(f"{r[0]:40} {r[1]:14} {r[2]}  ({r[3]:.0f}s)")
