#!/venv/bin/python
"""Evaluate seeded changes: seeded/<id>/{patch.diff, demo.py, meta.json}.

For each: scratch copy of /repo HEAD under /tmp -> demo must PASS; apply patch -> repository tests must still
pass, demo must FAIL, then every check named in meta.json["checks"] (default: the property's own check) is run
against the patched copy (quick tier unless --tier thorough).  /repo itself is never modified.
  tools/seeded.py [--tier quick|thorough] [--seed N] [ids or id fragments...]
"""
import glob, json, os, shutil, subprocess, sys, tempfile, time
from concurrent.futures import ThreadPoolExecutor

args = sys.argv[1:]
tier = "quick"
if "--tier" in args:
    i = args.index("--tier"); tier = args[i + 1]; del args[i:i + 2]
seed = "1"
if "--seed" in args:
    i = args.index("--seed"); seed = args[i + 1]; del args[i:i + 2]
only = set(args)


def sh(cmd, **kw):
    return subprocess.run(cmd, capture_output=True, text=True, **kw)


def evaluate(d):
    sid = os.path.basename(d.rstrip("/"))
    if only and sid not in only and not any(sid.startswith(o) or ("-" + o + "-") in sid or ("-" + o) in sid for o in only):
        return None
    meta = json.load(open(os.path.join(d, "meta.json")))
    checks = meta.get("checks") or [meta["property"]]
    tmp = tempfile.mkdtemp(prefix="seed.", dir="/tmp")
    try:
        subprocess.run(f"git -C /repo archive HEAD | tar -x -C {tmp}", shell=True, check=True)
        env = dict(os.environ, PYTHONPATH=tmp, PYTHONDONTWRITEBYTECODE="1")
        demo = os.path.join(d, "demo.py")
        clean = sh(["/venv/bin/python", demo], env=env, cwd=tmp)
        ap = sh(["git", "apply", os.path.abspath(os.path.join(d, "patch.diff"))], cwd=tmp)
        if ap.returncode != 0:
            subprocess.run("git init -q . && git add -A", shell=True, cwd=tmp)
            ap = sh(["git", "apply", "--3way", os.path.abspath(os.path.join(d, "patch.diff"))], cwd=tmp)
            if ap.returncode != 0:
                return (sid, "PATCH-DOES-NOT-APPLY", ap.stderr.strip()[:80], "", 0)
        t = sh(["/venv/bin/python", "-m", "pytest", "-q", "-p", "no:cacheprovider", "--continue-on-collection-errors"], env=env, cwd=tmp)
        last = t.stdout.strip().splitlines()[-1] if t.stdout.strip() else "?"
        tests = "tests-pass" if ("352 passed" in last and "3 errors" in last and "failed" not in last) else "TESTS:" + last[:30]
        broken = sh(["/venv/bin/python", demo], env=env, cwd=tmp)
        demo_s = f"demo clean={clean.returncode} patched={broken.returncode}"
        t0 = time.time()
        res = []
        for c in checks:
            try:
                r = sh(["./check", c, "--tier", tier], env=dict(os.environ, VERIF_REPO=tmp, VERIF_NPROC="8", VERIF_SEED=seed, VERIF_CHECK_TIMEOUT="1500"), cwd="/verif", timeout=1800)
                v = "CAUGHT" if r.returncode == 1 else "missed" if r.returncode == 0 else f"ERR{r.returncode}"
            except subprocess.TimeoutExpired:
                v = "TIMEOUT"
            res.append(f"{c}={v}")
        return (sid, tests, demo_s, " ".join(res), time.time() - t0)
    finally:
        shutil.rmtree(tmp, ignore_errors=True)


dirs = sorted(x for x in glob.glob("/verif/seeded/*/") if os.path.exists(os.path.join(x, "meta.json")))
with ThreadPoolExecutor(2) as ex:
    for r in ex.map(evaluate, dirs):
        if r:
            print(f"{r[0]:28} {r[1]:12} {r[2]:28} {r[3]}  ({r[4]:.0f}s)")
