import json, os, re, shutil, subprocess, sys, tempfile
def sh(cmd, **kw): return subprocess.run(cmd, capture_output=True, text=True, **kw)
commits = sh(["git","-C","/repo","log","--format=%H"]).stdout.split()
for sid in sys.argv[1:]:
    d=f"/verif/seeded/{sid}"; patch=os.path.abspath(d+"/patch.diff")
    files=re.findall(r"^diff --git a/(\S+)", open(patch).read(), re.M)
    ok=False
    for c in commits:
        tmp=tempfile.mkdtemp(prefix="rb.",dir="/tmp")
        try:
            subprocess.run(f"git -C /repo archive {c} | tar -x -C {tmp}",shell=True,check=True)
            if sh(["git","apply","--check",patch],cwd=tmp).returncode!=0: continue
            sh(["git","apply",patch],cwd=tmp)
            edits=[]
            for f in files:
                new=open(f"{tmp}/{f}").read()
                new=new.replace("re.compile(map_re(pattern))","re.compile(map_re(pattern), flags=re.VERSION0)")
                new=new.replace("re.compile(mapped)","re.compile(mapped, flags=re.VERSION0)")
                new=re.sub(r"re\.(fullmatch|search)\(map_re\(pattern\), string\)", r"re.\1(map_re(pattern), string, flags=re.VERSION0)", new)
                new=new.replace("string, timeout=MATCH_TIMEOUT)","string, timeout=MATCH_TIMEOUT, flags=re.VERSION0)")
                new=new.replace("except (TypeError, re.error):","except (TypeError, re.error, RecursionError):")
                new=new.replace("        except TypeError:\n            return False","        except (TypeError, RecursionError):\n            return False")
                old=sh(["git","-C","/repo","show","HEAD:"+f]).stdout
                if old!=new: edits.append({"file":f,"old":old,"new":new})
            r=subprocess.run(["/verif/tools/make_patch.py",sid],input=json.dumps(edits),text=True,capture_output=True)
            print(sid,"from",c[:7],r.stdout.strip(),r.stderr.strip()[-200:]); ok=True; break
        finally:
            shutil.rmtree(tmp,ignore_errors=True)
    if not ok: print(sid,"NO BASE")
