#!/bin/bash
# usage: tools/repo_commit.sh "fix: message"   -- runs the repo test-suite, commits /repo if 352 pass
cd /repo || exit 1
out=$(/venv/bin/python -m pytest -q -p no:cacheprovider --continue-on-collection-errors 2>&1 | tail -1)
echo "$out"
case "$out" in
  *"352 passed, 3 errors"*) git add -A && git commit -qm "$1" && git log --oneline | head -1 ;;
  *) echo "NOT COMMITTED: baseline changed"; exit 1 ;;
esac
