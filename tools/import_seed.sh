#!/bin/bash
# usage: [SEED_ROUND=4] tools/import_seed.sh C01 a <short-name>
#   copies /tmp/seed<round>-C01-out/{a.diff,demo_a.py,meta_a.json} to seeded/C01-<name>/ and stamps the round in meta.json
id=$1; x=$2; name=$3
rnd=${SEED_ROUND:-4}
src=${SEED_SRC:-/tmp/seed$rnd-$id-out}
dst=/verif/seeded/$id-$name
mkdir -p $dst
cp $src/$x.diff $dst/patch.diff && cp $src/demo_$x.py $dst/demo.py && cp $src/meta_$x.json $dst/meta.json || exit 1
/venv/bin/python - "$dst/meta.json" "$rnd" <<'PY'
import json, sys
p, rnd = sys.argv[1], int(sys.argv[2])
m = json.load(open(p)); m["round"] = rnd; m.setdefault("checks", [m["property"]])
json.dump(m, open(p, "w"), indent=1)
PY
echo imported $dst
