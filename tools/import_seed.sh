#!/bin/bash
# usage: tools/import_seed.sh C01 a <short-name>   -- copies /tmp/seed-C01-out/{a.diff,demo_a.py,meta_a.json} to seeded/C01-<name>/
id=$1; x=$2; name=$3
src=${SEED_SRC:-/tmp/seed3-$id-out}
dst=/verif/seeded/$id-$name
mkdir -p $dst
cp $src/$x.diff $dst/patch.diff && cp $src/demo_$x.py $dst/demo.py && cp $src/meta_$x.json $dst/meta.json && echo imported $dst
