#!/venv/bin/python
"""Re-create seeded/<id>/patch.diff against /repo HEAD when unrelated fixes touched the same files.

Finds the newest /repo commit the patch applies to, applies it there, and 3-way merges every touched file
(git merge-file current base patched) with HEAD's version; writes the new diff and notes the rebase in meta.json.
  tools/rebase_seed.py <seed id>...
"""
import json, os, re, shutil, subprocess, sys, tempfile


def sh(cmd, **kw):
    return subprocess.run(cmd, capture_output=True, text=True, **kw)


commits = sh(["git", "-C", "/repo", "log", "--format=%H"]).stdout.split()
for sid in sys.argv[1:]:
    d = f"/verif/seeded/{sid}"
    patch = os.path.abspath(os.path.join(d, "patch.diff"))
    files = re.findall(r"^\+\+\+ b/(.+)$", open(patch).read(), re.M)
    tmp = tempfile.mkdtemp(prefix="rebase.", dir="/tmp")
    try:
        base = None
        for c in commits:
            shutil.rmtree(os.path.join(tmp, "b"), ignore_errors=True)
            os.makedirs(os.path.join(tmp, "b"))
            subprocess.run(f"git -C /repo archive {c} | tar -x -C {tmp}/b", shell=True, check=True)
            if sh(["git", "apply", "--check", patch], cwd=f"{tmp}/b").returncode == 0:
                base = c
                break
        if base is None:
            print(sid, "no base commit found"); continue
        if base == commits[0]:
            print(sid, "already applies to HEAD"); continue
        os.makedirs(f"{tmp}/p")
        subprocess.run(f"git -C /repo archive {base} | tar -x -C {tmp}/p", shell=True, check=True)
        subprocess.run(["git", "apply", patch], cwd=f"{tmp}/p", check=True)
        os.makedirs(f"{tmp}/h")
        subprocess.run(f"git -C /repo archive HEAD | tar -x -C {tmp}/h", shell=True, check=True)
        ok = True
        for f in files:
            r = sh(["git", "merge-file", "-p", f"{tmp}/h/{f}", f"{tmp}/b/{f}", f"{tmp}/p/{f}"])
            if r.returncode != 0:
                print(sid, "CONFLICT in", f); ok = False; break
            os.makedirs(f"{tmp}/m/" + os.path.dirname(f), exist_ok=True)
            open(f"{tmp}/m/{f}", "w").write(r.stdout)
        if not ok:
            continue
        out = []
        for f in files:
            r = sh(["git", "diff", "--no-index", "--", f"{tmp}/h/{f}", f"{tmp}/m/{f}"])
            t = r.stdout.replace(f"a{tmp}/h/", "a/").replace(f"b{tmp}/m/", "b/")
            out.append(t)
        open(patch, "w").write("".join(out))
        m = json.load(open(f"{d}/meta.json"))
        m["rebased"] = f"patch re-created against /repo HEAD ({commits[0][:7]}) by 3-way merge from its original base {base[:7]} after unrelated fixes touched the same files (tools/rebase_seed.py)"
        json.dump(m, open(f"{d}/meta.json", "w"), indent=1)
        print(sid, "rebased from", base[:7])
    finally:
        shutil.rmtree(tmp, ignore_errors=True)
