#!/venv/bin/python
"""Regenerate SEEDED.md from seeded/*/meta.json and the output of `tools/seeded.py > out/seeded_all.txt`."""
import glob, json, os, re, sys

res = {}
src = sys.argv[1] if len(sys.argv) > 1 else "/verif/out/seeded_all.txt"
for line in open(src):
    m = re.match(r"(\S+)\s+(tests-pass|TESTS:\S*|PATCH-DOES-NOT-APPLY)\s+(.*?)\s{2,}((?:C\d\d=\w+ ?)+)", line)
    if m:
        res[m.group(1)] = (m.group(2), m.group(3).strip(), m.group(4).strip())

HEAD = """# Seeded changes written by independent sub-agents

Each sub-agent received only the text of one property and its own scratch git worktree of /repo (nothing from /verif) and was asked for changes that break the property while the repository's 352 tests still pass, needing something specific to manifest, each with a demonstration program that fails with the change and passes without it. Every row was re-confirmed by `tools/seeded.py` in a scratch copy of /repo HEAD: the demo passes on the clean tree, the patch applies, the tests still pass, the demo fails, then the listed checks run (quick tier, seed 1) against the patched copy. `first contact` is what happened the first time the change met the checks as they then were; `now` is the quick tier at the committed state. Patches marked *rebased* in their meta.json were re-created against the current /repo HEAD after unrelated `fix:` commits touched the same lines.

Round 1 (plain brief, two changes per property): 30 of 40 caught at first contact by their own property's check.

Round 2 (the brief told the sub-agents that a thorough randomised differential generator guards the property and asked for narrow conjunctions: size thresholds, state after a specific earlier event, rarely used public API paths, thread interleavings): 4 of 40 caught at first contact by their own property's check, 11 of 40 by some check.

Round 3 (one change per property; the brief listed every dimension the generators were by then known to cover and asked for a trigger outside all of them): 4 of 20 caught at first contact by their own property's check (C04, C11, C18, C19), 5 of 20 by some check (C02's by C16's thread rounds, probabilistically). The sixteen misses named dimensions that were genuinely absent: the interpreter's own configuration (-O, int digit limit, locale), ambient process state (decimal context), object lifetime (environment garbage-collected while its queries live), the package's DEFAULT_ENV being reconfigured, declarations changed in place on a registered object, the traversal mode flipped between compile and apply, an application dying part-way and the query being reused, strings holding JSON text as the query argument, two-character coordinated damage inside one escape, one object occurring twice inside a comparand, threads inside the same container comparison, several live iterators in nondeterministic mode, arrays beyond 2^17 elements.

Round 4 (two changes per property, this time *realistic maintenance work*: A a performance change - fast path, cache, precomputation - and B a refactoring, clean-up, robustness or small feature change, each with a believable motivation and correct on the common path): 32 of 40 caught at first contact by their own property's check. Of the 8 misses, 5 were caught at once by a neighbouring property's check aimed at the same mechanism (C09 for C04's and C13's escape changes, C01/C02 for C06's fast path, C16 for C14's shared filter context, C18 for C17's cycle detector); 3 were caught by no check (C05's two and C15's `find_one('$')`). The sub-agents' side remarks on the unchanged code led to findings AP and AQ.

Round 5 (two changes per property again, other kinds of maintenance work: A a bug fix or edge-case improvement answering a plausible user report, B a modernisation or dependency change - match statements, `str.translate`, `json.loads` for unescaping, ChainMap registries, compile-time precomputation; the brief asked to avoid the mechanisms already tried): 31 of 40 caught at first contact by their own property's check. Of the 9 others, one made C05 end in a harness error (exit 2) instead of a violation - its own set-up tripped over the changed registry type - which was a defect of the harness; 5 were caught by a neighbouring property's check (C03/C08 for C01's, C17 for C02's, C14 for C15's, C18 for C17's); 3 by none. Side remarks gave finding AR.

Round 6 (three changes per property, each aimed at a different clause of the property statement - the author was asked to pick the clauses hardest to test - and at a different mechanism among the code anchors; a list of already-tried ideas was to be avoided; 60 written, 59 kept: one C20 change made `--debug` print no traceback, which the property permits): 41 of 59 caught at first contact by their own property's check. One of the others made C13 hang for hours (an arithmetic operation inside one C call, out of reach of the CPU-budget timer); the runner now ends such a worker with a watchdog thread and reports the in-flight case. Two misses were oracle weaknesses rather than generator gaps: an obsolete exclusion left over from finding R discarded every function argument starting with `!` or `(` (C12, also C02/C10), and C15 allowed find_one to raise where the README's definition makes it return the first node. Side remarks gave findings AS (fixed) and AT (open, third-party crash).

Round 7 (two changes per property, any kind of maintenance work, with the list of everything tried before to be avoided - a final measurement after six rounds of widening): 35 of 40 caught at first contact by their own property's check; of the 5 others, 3 were caught by a neighbouring check (C15 for C14's, C18 for C17's, C01/C08 for C15's) and 2 (both C20) by none.

Up to round 5 every miss was a region the generators did not reach, never an oracle that accepted the wrong behaviour (round 6 found the two oracle weaknesses named above); each led to a general widening of a generator, described in the `first contact` column and in DESIGN.md section 6.
"""


def cell(s, n=300):
    s = " ".join(str(s).split()).replace("|", "\\|")
    return s[:n]


out = [HEAD]
metas = []
for d in sorted(glob.glob("/verif/seeded/*/")):
    p = os.path.join(d, "meta.json")
    if os.path.exists(p):
        metas.append((os.path.basename(d.rstrip("/")), json.load(open(p))))
missing = []
for rnd in (1, 2, 3, 4, 5, 6, 7):
    out.append(f"\n## Round {rnd}\n\n| id | needs, to manifest | first contact | now (quick tier, seed 1) |\n|---|---|---|---|\n")
    for sid, m in metas:
        if m.get("round", 1) != rnd:
            continue
        r = res.get(sid)
        if r is None:
            missing.append(sid)
            now = "?"
        else:
            now = r[2] if r[0] == "tests-pass" and "patched=1" in r[1] and "clean=0" in r[1] else f"{r[0]} {r[1]} {r[2]}"
        out.append(f"| {sid} | {cell(m.get('needs_to_manifest', ''))} | {cell(m.get('first_attempt', ''), 400)} | {now} |\n")
open("/verif/SEEDED.md", "w").write("".join(out))
caught = sum(1 for sid, _ in metas if sid in res and "CAUGHT" in res[sid][2])
print(f"{len(metas)} seeded changes, {caught} caught by at least one listed check, not evaluated: {missing}")
for sid, _ in metas:
    if sid in res and ("CAUGHT" not in res[sid][2] or res[sid][0] != "tests-pass" or "patched=1" not in res[sid][1]):
        print("ATTENTION", sid, res[sid])
