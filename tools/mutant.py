#!/venv/bin/python
"""Sensitivity runs: apply a small source replacement (or a patch) to a scratch copy of /repo
outside /repo and /verif, optionally run the repository's tests there, run a check against it
with VERIF_REPO, and remove the scratch copy.

  tools/mutant.py --file jsonpath_rfc9535/selectors.py --old 'A' --new 'B' [--tests] -- ./check C07
  tools/mutant.py --patch seeded/x/patch.diff [--tests] -- ./check C07
  tools/mutant.py --spec mutants/foo.json [--tests]      (spec: {file, old, new, checks:[..]})
"""
import argparse, json, os, shutil, subprocess, sys, tempfile


def main():
    ap = argparse.ArgumentParser()
    ap.add_argument("--file"); ap.add_argument("--old"); ap.add_argument("--new")
    ap.add_argument("--patch"); ap.add_argument("--spec")
    ap.add_argument("--tests", action="store_true")
    ap.add_argument("--save-patch")
    ap.add_argument("cmd", nargs=argparse.REMAINDER)
    a = ap.parse_args()
    cmd = a.cmd[1:] if a.cmd and a.cmd[0] == "--" else a.cmd
    edits = []
    if a.spec:
        s = json.load(open(a.spec))
        edits = s.get("edits") or [{"file": s["file"], "old": s["old"], "new": s["new"]}]
        if not cmd:
            cmd = ["./check", s["checks"][0]]
    elif a.file:
        edits = [{"file": a.file, "old": a.old, "new": a.new}]
    d = tempfile.mkdtemp(prefix="mut.", dir="/tmp")
    try:
        subprocess.run(f"git -C /repo archive HEAD | tar -x -C {d}", shell=True, check=True)
        diff = subprocess.run("git -C /repo diff HEAD", shell=True, capture_output=True, text=True).stdout
        if diff.strip():
            subprocess.run(["git", "apply", "-"], input=diff, text=True, cwd=d, check=True)
        subprocess.run("git init -q . && git add -A && git -c user.email=a@b -c user.name=x commit -qm base",
                       shell=True, cwd=d, check=True)
        if a.patch:
            subprocess.run(["git", "apply", os.path.abspath(a.patch)], cwd=d, check=True)
        for e in edits:
            p = os.path.join(d, e["file"])
            src = open(p, encoding="utf-8").read()
            if src.count(e["old"]) != 1:
                print(f"mutant: 'old' text occurs {src.count(e['old'])} times in {e['file']}", file=sys.stderr)
                return 3
            open(p, "w", encoding="utf-8").write(src.replace(e["old"], e["new"]))
        if a.save_patch:
            out = subprocess.run(["git", "diff"], cwd=d, capture_output=True, text=True).stdout
            open(a.save_patch, "w").write(out)
        if a.tests:
            env = dict(os.environ, PYTHONPATH=d, PYTHONDONTWRITEBYTECODE="1")
            r = subprocess.run(["/venv/bin/python", "-m", "pytest", "-q", "-p", "no:cacheprovider",
                                "--continue-on-collection-errors", "-q"], cwd=d, env=env,
                               capture_output=True, text=True)
            print("tests:", r.stdout.strip().splitlines()[-1] if r.stdout.strip() else r.stderr[-300:])
        env = dict(os.environ, VERIF_REPO=d)
        r = subprocess.run(cmd, env=env, cwd="/verif")
        print(f"mutant exit={r.returncode}")
        return r.returncode
    finally:
        shutil.rmtree(d, ignore_errors=True)


sys.exit(main())
