#!/venv/bin/python
"""Which lines of jsonpath_rfc9535 do the checks execute?  (A generator-gap finder, not a verdict.)

  tools/coverage.py [--tier quick] [C01 C02 ...]    -> COVERAGE.md + summary on stdout
Runs each check with VERIF_COVERAGE set (vlib/runner.py records executed lines per shard with sys.monitoring), merges
the per-shard sets and lists the executable lines never reached, per file, with their source text.  Code only reached
in subprocesses (C18's children, C20's subprocess runs) is not seen; both checks also run the same code in-process."""
import glob, json, os, shutil, subprocess, sys, tempfile

args = sys.argv[1:]
tier = "quick"
if "--tier" in args:
    i = args.index("--tier"); tier = args[i + 1]; del args[i:i + 2]
checks = args or [f"C{i:02d}" for i in range(1, 21)]
REPO = os.environ.get("VERIF_REPO", "/repo")
PKG = os.path.join(REPO, "jsonpath_rfc9535")


def executable_lines(path):
    src = open(path).read()
    code = compile(src, path, "exec")
    lines = set()
    stack = [code]
    while stack:
        c = stack.pop()
        for _, _, ln in c.co_lines():
            if ln is not None and ln > 0:
                lines.add(ln)
        stack.extend(k for k in c.co_consts if hasattr(k, "co_lines"))
    return lines, src.splitlines()


tmp = tempfile.mkdtemp(prefix="cov.", dir="/tmp")
per_check = {}
try:
    for c in checks:
        d = os.path.join(tmp, c)
        r = subprocess.run(["./check", c, "--tier", tier], cwd="/verif", env=dict(os.environ, VERIF_COVERAGE=d), capture_output=True, text=True)
        seen = set()
        for f in glob.glob(os.path.join(d, "*.json")):
            seen |= {tuple(x) for x in json.load(open(f))}
        per_check[c] = seen
        print(f"{c}: rc={r.returncode} lines seen {len(seen)}", flush=True)
    allseen = set().union(*per_check.values())
    out = ["# Lines of jsonpath_rfc9535 executed by the checks (%s tier)\n\n" % tier,
           "Measured with `tools/coverage.py` (sys.monitoring line events inside the shard workers). A measuring aid for finding "
           "generator gaps; no verdict depends on it. Module-level and class-body lines execute at import, before the recorder "
           "starts, and are listed only if no check ever re-executes them - they are filtered out below when they are `def`/`class`/import/assignment lines at indentation 0 or 4 of a class body.\n\n"]
    total_exec = total_miss = 0
    for path in sorted(glob.glob(os.path.join(PKG, "**", "*.py"), recursive=True)):
        rel = os.path.relpath(path, PKG)
        lines, src = executable_lines(path)
        miss = []
        for ln in sorted(lines):
            if (rel, ln) in allseen:
                continue
            text = src[ln - 1]
            stripped = text.strip()
            indent = len(text) - len(text.lstrip())
            if indent == 0 or stripped.startswith(("def ", "class ", "@", '"""', "from ", "import ", "__slots__")) or (indent == 4 and ("=" in stripped or ":" in stripped) and not stripped.startswith(("if ", "return", "raise", "for ", "while ", "yield", "self."))):
                continue   # executed at import time (definitions, class attributes, docstrings)
            miss.append((ln, text))
        body = [ln for ln in lines]
        total_exec += len(body)
        total_miss += len(miss)
        out.append(f"## {rel}: {len(miss)} line(s) never reached\n\n")
        if miss:
            out.append("```\n" + "\n".join(f"{ln:5d}  {t}" for ln, t in miss) + "\n```\n\n")
    out.insert(2, f"Executable lines: {total_exec}; never reached inside a function body: {total_miss}.\n\n")
    open("/verif/COVERAGE.md", "w").write("".join(out))
    print(f"executable {total_exec}, unreached (function bodies) {total_miss} -> COVERAGE.md")
finally:
    shutil.rmtree(tmp, ignore_errors=True)
