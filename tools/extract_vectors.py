#!/venv/bin/python
"""One-off: extract RFC-derived vectors from /repo/tests into vlib/selftest_vectors.json
(so that the reference self-test never depends on the state of /repo/tests)."""
import importlib, json, re, sys
sys.path.insert(0, "/repo"); sys.path.insert(0, "/repo/tests")
out = {"find": [], "paths": [], "welltyped": [], "iregexp_valid": [], "iregexp_invalid": [], "rejected": [], "valid_queries": []}
for mod in ("test_ietf_examples", "test_goessner", "test_ietf_comparison", "test_issues"):
    try:
        m = importlib.import_module(mod)
    except Exception as e:
        print("skip", mod, e); continue
    for c in getattr(m, "TEST_CASES", []):
        if hasattr(c, "query") and hasattr(c, "data") and hasattr(c, "want"):
            out["find"].append({"src": mod, "description": c.description, "query": c.query, "data": c.data, "want": c.want})
m = importlib.import_module("test_normalized_path")
for c in m.TEST_CASES:
    out["paths"].append({"description": c.description, "query": c.query, "data": c.data, "want": c.want})
m = importlib.import_module("test_ietf_well_typedness")
for c in m.TEST_CASES:
    out["welltyped"].append({"description": c.description, "query": c.query, "valid": c.valid})
m = importlib.import_module("test_iregexp")
out["iregexp_valid"] = [c.pattern for c in m.VALID_TEST_CASES]
out["iregexp_invalid"] = [c.pattern for c in m.INVALID_TEST_CASES]
m = importlib.import_module("test_parse")
out["valid_queries"] = [c.query for c in m.TEST_CASES]
src = open("/repo/tests/test_errors.py").read()
for mm in re.finditer(r"with pytest\.raises\(\s*(\w+)[^)]*\):\s*\n\s*env\.compile\(\s*(\"(?:[^\"\\]|\\.)*\"|'(?:[^'\\]|\\.)*')\s*\)", src):
    out["rejected"].append({"error": mm.group(1), "query": eval(mm.group(2))})
json.dump(out, open("/verif/vlib/selftest_vectors.json", "w"), indent=0, ensure_ascii=True)
print({k: len(v) for k, v in out.items()})
