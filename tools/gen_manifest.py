#!/venv/bin/python
"""Regenerate MANIFEST.json from the check modules present. Run from /verif."""
import importlib, json, os, sys
sys.path.insert(0, os.path.dirname(os.path.dirname(os.path.abspath(__file__))))
sys.path.insert(0, os.environ.get("VERIF_REPO", "/repo"))
props = [json.loads(l) for l in open("properties.jsonl")]
checks, na = [], []
for p in props:
    pid = p["id"]
    path = f"checks/{pid.lower()}.py"
    if os.path.exists(path):
        m = importlib.import_module(f"checks.{pid.lower()}")
        if getattr(m, "DISABLED", None):
            na.append({"property_id": pid, "reason": m.DISABLED})
            continue
        checks.append({
            "property_id": pid,
            "quick_cmd": f"./check {pid} --tier quick",
            "thorough_cmd": f"./check {pid} --tier thorough",
            "evidence_file": f"evidence/{pid}.json",
            "replay_cmd_template": f"./check {pid} --replay {{path}}",
            "engine": "vlib.runner",
            "level_claimed": {"category": "exploration", "text": m.LEVEL_TEXT, "design_ref": f"DESIGN.md section 5, {pid}"},
            "level_note": m.LEVEL_NOTE,
            "technique": m.TECHNIQUE,
        })
    else:
        na.append({"property_id": pid, "reason": "check not built yet (planned in DESIGN.md section 5); not claimed until its check exists"})
man = {
    "version": 1,
    "setup_cmd": "./setup.sh",
    "hooks": {"guard": "JSONPATH_RFC9535_VERIF", "enable": "no source hooks are needed: the package is pure Python and is imported from /repo's working tree by every check (PYTHONPATH=$VERIF_REPO, default /repo); ./check exports JSONPATH_RFC9535_VERIF=1 for uniformity",
              "baseline_off_cmd": "cd /repo && /venv/bin/python -m pytest -ra -q -p no:cacheprovider --timeout=900 --continue-on-collection-errors",
              "source_commits": [], "add_only": True},
    "engines": [{"name": "vlib.runner", "path": "vlib/runner.py", "serves_properties": [c["property_id"] for c in checks],
                 "kind_free_text": "property-based testing / fuzzing: Hypothesis strategies, exhaustive enumeration of finite sub-domains and atheris, compared with an independent RFC 9535 reference model (vlib/ref); collect-bucket-minimise; known findings by signature"}],
    "checks": checks,
    "notes": "All checks: ./check <ID> [--tier quick|thorough] [--replay PATH]; VERIF_SEED selects the seed; exit 2 = harness error. known_findings.txt lists open and fixed genuine defects.",
    "not_applicable": na,
}
json.dump(man, open("MANIFEST.json", "w"), indent=1)
print(f"{len(checks)} checks, {len(na)} not claimed")
