#!/bin/bash
# MANIFEST.setup_cmd: offline installs, then the reference self-test.
set -u
HERE="$(cd "$(dirname "${BASH_SOURCE[0]}")" && pwd)"
cd "$HERE"
WH=/opt/veriftools/wheels
if ! /venv/bin/python -c "import hypothesis" 2>/dev/null; then
  /venv/bin/pip install --no-index --find-links "$WH" hypothesis || exit 2
fi
mkdir -p .deps out evidence
if ! PYTHONPATH="$HERE/.deps" /venv/bin/python -c "import atheris" 2>/dev/null; then
  /venv/bin/pip install --no-index --find-links "$WH" --target "$HERE/.deps" atheris >/dev/null 2>&1 \
    || echo "setup: atheris not installable; thorough tiers run without the libFuzzer part"
fi
export PYTHONPATH="${VERIF_REPO:-/repo}:$HERE:$HERE/.deps" PYTHONHASHSEED=0 PYTHONDONTWRITEBYTECODE=1
/venv/bin/python -X utf8 -c "from vlib import selftest; selftest.run(quick=False); print('reference self-test ok')" || exit 2
